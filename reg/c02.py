from registry import H
from reg import c01

ID = "C02"

PROP = {
    "claim": "for every byte string up to the per-harness length N: no panic, no arithmetic overflow, no failed unwrap/"
             "expect/index, and every loop terminates within the derived unwinding bound (unwinding assertions on); "
             "iterators make progress (inductive step harnesses) and formatters of results/errors return normally",
    "outside": "inputs longer than N (iterator progress is shown inductively for slices up to N); stack exhaustion; "
               "Debug of whole-packet results, of ArpPacket / TcpOptions / Ipv4Options / TcpSlice and of "
               "linux_sll::HeaderError::UnsupportedArpHardwareId (formatters that exceed the 20 GB memory cap)",
    "assumptions": [],
    # same bodies as C01 (different failure classes are attributed, DESIGN 2.2) + C02-only harnesses
    "harnesses": list(c01.PROP["harnesses"]) + [
        H("c02_fmt_len_error_small", "c02", unwind=20, bounds="all layers / length sources, numbers below 1000 (both message forms)", encodes=["<LenError as Display/Debug>::fmt, Layer Display"]),
        H("c02_fmt_content_ip_version", "c02", unwind=8, bounds="every value", encodes=["ip::HeaderError::UnsupportedIpVersion Display/Debug"]),
        H("c02_fmt_content_ip_ihl", "c02", unwind=8, bounds="every value", encodes=["ip::HeaderError::Ipv4HeaderLengthSmallerThanHeader Display/Debug"]),
        H("c02_fmt_content_ipv4_version", "c02", unwind=8, bounds="every value", encodes=["ipv4::HeaderError::UnexpectedVersion Display/Debug"]),
        H("c02_fmt_content_ipv4_ihl", "c02", unwind=8, bounds="every value", encodes=["ipv4::HeaderError::HeaderLengthSmallerThanHeader Display/Debug"]),
        H("c02_fmt_content_ipv6_version", "c02", unwind=8, bounds="every value", encodes=["ipv6::HeaderError Display/Debug"]),
        H("c02_fmt_content_hbh", "c02", unwind=8, bounds="-", encodes=["ipv6_exts::HeaderError::HopByHopNotAtStart Display/Debug"]),
        H("c02_fmt_content_auth", "c02", unwind=8, bounds="-", encodes=["ipv6_exts::HeaderError::IpAuth / ip_auth::HeaderError Display/Debug"]),
        H("c02_fmt_content_tcp", "c02", unwind=8, bounds="every value", encodes=["tcp::HeaderError Display/Debug"]),
        H("c02_fmt_content_macsec_version", "c02", unwind=8, bounds="-", encodes=["macsec::HeaderError::UnexpectedVersion Display/Debug"]),
        H("c02_fmt_content_macsec_sl", "c02", unwind=8, bounds="-", encodes=["macsec::HeaderError::InvalidUnmodifiedShortLen Display/Debug"]),
        H("c02_fmt_content_sll_packet_type", "c02", unwind=8, bounds="every value", encodes=["linux_sll::HeaderError::UnsupportedPacketTypeField Display/Debug"]),
        H("c02_fmt_packet_err_sll", "c02", unwind=8, bounds="every value", encodes=["packet::SliceError::LinuxSll Display/Debug"]),
        H("c02_fmt_packet_err_ip", "c02", unwind=8, bounds="every value", encodes=["packet::SliceError::Ip Display/Debug"]),
        H("c02_fmt_packet_err_tcp", "c02", unwind=8, bounds="every value", encodes=["packet::SliceError::Tcp Display/Debug"]),
        H("c02_fmt_value_too_big_u8", "c02", unwind=8, bounds="every value / value type", encodes=["ValueTooBigError<u8> Display/Debug, ValueType Display"]),
        H("c02_fmt_value_too_big_u16", "c02", unwind=8, bounds="every value / value type", encodes=["ValueTooBigError<u16> Display/Debug"]),
        H("c02_fmt_udp", "c02", unwind=12, bounds="9 byte inputs", encodes=["Debug of UdpSlice, UdpHeader"]),
        H("c02_fmt_ether_type", "c02", unwind=8, bounds="all 2^16 values", encodes=["<EtherType as Debug>::fmt"]),
        H("c02_fmt_ip_number", "c02", unwind=8, bounds="all 2^8 values", encodes=["<IpNumber as Debug>::fmt, keyword_str, protocol_str"]),
        H("c02_fmt_sll_packet_type", "c02", unwind=8, bounds="all valid values", encodes=["<LinuxSllPacketType as Debug>::fmt"]),
        H("c02_fmt_len_error", "c02", tier="thorough", timeout=3000, unwind=24, bounds="complete usize range of every number", encodes=["<LenError as Display/Debug>::fmt"]),
        H("c02_fmt_value_too_big_usize", "c02", tier="thorough", timeout=3000, unwind=24, bounds="complete usize range", encodes=["ValueTooBigError<usize> Display/Debug"]),
        H("c02_fmt_icmpv6", "c02", tier="thorough", timeout=3000, unwind=8, bounds="9 byte inputs", encodes=["Debug of Icmpv6Header / Icmpv6Type"]),
        H("c02_fmt_icmpv4", "c02", tier="thorough", timeout=3000, unwind=8, bounds="9 byte inputs", encodes=["Debug of Icmpv4Header / Icmpv4Type"]),
        H("c02_fmt_vlan_slice", "c02", tier="thorough", timeout=3000, unwind=8, bounds="5 byte inputs", encodes=["<SingleVlanSlice as Debug>::fmt"]),
        H("c02_fmt_eth2_slice", "c02", tier="thorough", timeout=3000, unwind=8, bounds="15 byte inputs", encodes=["<Ethernet2Slice as Debug>::fmt"]),
        H("c02_fmt_linux_nonstandard", "c02", tier="thorough", timeout=3000, unwind=8, bounds="all valid values", encodes=["<LinuxNonstandardEtherType as Debug>::fmt"]),
        H("c02_fmt_arp_hw_id", "c02", tier="thorough", timeout=3000, unwind=8, bounds="all 2^16 values", encodes=["<ArpHardwareId as Debug>::fmt"]),
        H("c02_fmt_sll_slice", "c02", tier="thorough", timeout=3000, unwind=20, bounds="17 byte inputs", encodes=["<LinuxSllSlice as Debug>::fmt"]),
        H("c02_ext_iter_step", "c02", unwind=5, timeout=1500, bounds="first next() on every chain decoded (strict or lax) from <= 24 bytes", encodes=["Ipv6ExtensionSliceIter::next"]),
        H("c02_skip_all_exts", "c02", unwind=5, timeout=1500, bounds="every first header x every byte string of length 0..=24", encodes=["Ipv6Header::skip_all_header_extensions_in_slice", "Ipv6Header::skip_header_extension_in_slice"]),
    ],
}
