from registry import H
from reg import c01

ID = "C02"

PROP = {
    "claim": "for every byte string up to the per-harness length N: no panic, no arithmetic overflow, no failed unwrap/"
             "expect/index, and every loop terminates within the derived unwinding bound (unwinding assertions on); "
             "iterators make progress (inductive step harnesses) and formatters of results/errors return normally",
    "outside": "inputs longer than N (iterator progress is shown inductively for slices up to N); stack exhaustion; "
               "Debug of whole-packet results with long payloads",
    "assumptions": [],
    # same bodies as C01 (different failure classes are attributed, DESIGN 2.2) + C02-only harnesses
    "harnesses": list(c01.PROP["harnesses"]) + [],
}
