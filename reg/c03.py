from registry import H

ID = "C03"

def _h(name, **kw):
    return H(name, "c03", **kw)

PER_LAYER = [
    _h("c03_eth", unwind=9, bounds="every byte string of length 0..=20", encodes=["Ethernet2Slice::from_slice_without_fcs + accessors"]),
    _h("c03_vlan", unwind=4, bounds="every byte string of length 0..=12", encodes=["SingleVlanSlice::from_slice + accessors"]),
    _h("c03_macsec", unwind=4, bounds="every byte string of length 0..=28", encodes=["MacsecSlice::from_slice", "MacsecHeaderSlice accessors"]),
    _h("c03_sll", unwind=10, bounds="every byte string of length 0..=20", encodes=["LinuxSllSlice::from_slice + accessors"]),
    _h("c03_arp", unwind=4, bounds="every byte string of length 0..=32", encodes=["ArpPacketSlice::from_slice + accessors"]),
    _h("c03_ipv4", unwind=6, bounds="every byte string of length 0..=44", encodes=["Ipv4Slice::from_slice", "IpAuthHeaderSlice::from_slice", "accessors"]),
    _h("c03_ipv6_56", unwind=4, timeout=1200, bounds="every byte string of length 0..=56 (<= 2 extension headers)", encodes=["Ipv6Slice::from_slice", "Ipv6ExtensionsSlice::from_slice", "accessors"]),
    _h("c03_ipv6_64", tier="thorough", unwind=5, timeout=3600, bounds="every byte string of length 0..=64 (<= 3 extension headers)", encodes=["Ipv6Slice::from_slice", "Ipv6ExtensionsSlice::from_slice", "accessors"]),
    _h("c03_ipv6_ext_iter_16", unwind=4, timeout=1200, bounds="every first header x every byte string of length 0..=16", encodes=["Ipv6ExtensionsSlice::from_slice", "Ipv6ExtensionSliceIter"]),
    _h("c03_ipv6_ext_iter_24", tier="thorough", unwind=5, timeout=3600, bounds="every first header x every byte string of length 0..=24", encodes=["Ipv6ExtensionsSlice::from_slice", "Ipv6ExtensionSliceIter"]),
    _h("c03_ip_dispatch", unwind=4, bounds="every byte string of length 0..=44 whose IPv6 next header is not an extension header", encodes=["IpSlice::from_slice"]),
    _h("c03_udp", unwind=4, bounds="every byte string of length 0..=16", encodes=["UdpSlice::from_slice + accessors"]),
    _h("c03_tcp", unwind=4, bounds="every byte string of length 0..=64", encodes=["TcpSlice::from_slice + accessors"]),
    _h("c03_icmp", unwind=6, bounds="every byte string of length 0..=24, ICMPv4 and ICMPv6", encodes=["Icmpv4Slice::from_slice", "Icmpv6Slice::from_slice", "accessors"]),
]

GLUE = [
    H("c03_glue_eth_ipv4_tcp", "c03::glue", seed_group="glue-heavy", unwind=2, timeout=1500, bounds="from_ethernet: Ethernet II -> IPv4 (symbolic IHL) -> TCP, 0..=62 bytes", encodes=["SlicedPacket::from_* (SlicedPacketCursor)", "all layer constructors on the path"]),
    H("c03_glue_macsec_vlan_ipv4_udp", "c03::glue", seed_group="glue-heavy", unwind=4, timeout=1500, bounds="from_ether_type(MACSEC): MACsec(unmodified, no SCI) -> VLAN -> IPv4(IHL 5) -> UDP, 0..=42 bytes; short length, total length, UDP length, fragment bits, all other bytes symbolic", encodes=["SlicedPacket::from_* (SlicedPacketCursor)", "all layer constructors on the path"]),
    H("c03_glue_ipv6_route_udp", "c03::glue", unwind=3, timeout=1500, bounds="from_ip: IPv6 -> routing header (symbolic size) -> UDP, 0..=60 bytes", encodes=["SlicedPacket::from_* (SlicedPacketCursor)", "all layer constructors on the path"]),
    H("c03_glue_sll_arp", "c03::glue", unwind=2, timeout=1500, bounds="from_linux_sll: SLL(host, ARPHRD_ETHER) -> ARP with symbolic address sizes, 0..=44 bytes", encodes=["SlicedPacket::from_* (SlicedPacketCursor)", "all layer constructors on the path"]),
    H("c03_glue_vlan_x4", "c03::glue", seed_group="glue-heavy", unwind=5, timeout=1500, bounds="from_ether_type(0x88a8): four stacked VLAN tags (cap of 3 link extensions), 0..=20 bytes", encodes=["SlicedPacket::from_* (SlicedPacketCursor)", "all layer constructors on the path"]),
    H("c03_glue_ipv4_icmp", "c03::glue", unwind=2, timeout=1500, bounds="from_ip: IPv4(IHL 5) -> ICMPv4 incl. timestamp rule and fragment bits, 0..=44 bytes", encodes=["SlicedPacket::from_* (SlicedPacketCursor)", "all layer constructors on the path"]),
    H("c03_glue_ipv6_frag_icmp6", "c03::glue", unwind=3, timeout=1500, bounds="from_ip: IPv6 -> fragment header -> ICMPv6, 0..=60 bytes", encodes=["SlicedPacket::from_* (SlicedPacketCursor)", "all layer constructors on the path"]),
    H("c03_glue_any_ether_type_44", "c03::glue", tier="thorough", unwind=5, timeout=5400, bounds="from_ether_type with symbolic ether type, every byte string of length 0..=44", encodes=["SlicedPacket::from_* (SlicedPacketCursor)", "all layer constructors"]),
    H("c03_glue_any_ip_48", "c03::glue", tier="thorough", unwind=5, timeout=5400, bounds="from_ip, every byte string of length 0..=48", encodes=["SlicedPacket::from_* (SlicedPacketCursor)", "all layer constructors"]),
    H("c03_glue_any_ethernet_48", "c03::glue", tier="thorough", unwind=5, timeout=5400, bounds="from_ethernet, every byte string of length 0..=48", encodes=["SlicedPacket::from_* (SlicedPacketCursor)", "all layer constructors"]),
    H("c03_glue_any_sll_44", "c03::glue", tier="thorough", unwind=5, timeout=5400, bounds="from_linux_sll, every byte string of length 0..=44", encodes=["SlicedPacket::from_* (SlicedPacketCursor)", "all layer constructors"]),
]

PROP = {
    "max_jobs": 8,  # parallel CBMC jobs (memory profile of these harnesses)
    "claim": "each strict constructor that whole-packet slicing is built from accepts exactly the byte strings the "
             "reference decoder (kani/src/refm.rs, written from the wire formats) accepts and returns the reference's "
             "header/payload byte ranges, length source, fragmentation flag and field values; the cursor glue between "
             "the layers is decided on shaped whole-packet inputs",
    "outside": "inputs longer than the per-harness bound; stackings deeper than fit into it; jumbograms",
    "assumptions": ["the reference decoder kani/src/refm.rs is correct (validated natively by kani/src/bin/selfcheck.rs "
                    "on pseudo-random tapes before the solver runs are trusted)"],
    "harnesses": PER_LAYER + GLUE,
}
