from registry import H

ID = "C07"

def _h(name, **kw):
    return H(name, "c03", **kw)

PER_LAYER = [
    _h("c07_eth", unwind=4, bounds="every rejected byte string of length 0..=20", encodes=["Ethernet2Slice::from_slice_without_fcs"]),
    _h("c07_vlan", unwind=4, bounds="every rejected byte string of length 0..=12", encodes=["SingleVlanSlice::from_slice"]),
    _h("c07_macsec", unwind=4, bounds="every rejected byte string of length 0..=28", encodes=["MacsecSlice::from_slice"]),
    _h("c07_sll", unwind=4, bounds="every rejected byte string of length 0..=20", encodes=["LinuxSllSlice::from_slice"]),
    _h("c07_arp", unwind=4, bounds="every rejected byte string of length 0..=32", encodes=["ArpPacketSlice::from_slice"]),
    _h("c07_ipv4", unwind=4, bounds="every rejected byte string of length 0..=44", encodes=["Ipv4Slice::from_slice", "IpAuthHeaderSlice::from_slice"]),
    _h("c07_ipv6_56", unwind=4, timeout=1200, bounds="every rejected byte string of length 0..=56", encodes=["Ipv6Slice::from_slice", "Ipv6ExtensionsSlice::from_slice"]),
    _h("c07_ipv6_64", tier="thorough", unwind=5, timeout=3600, bounds="every rejected byte string of length 0..=64", encodes=["Ipv6Slice::from_slice", "Ipv6ExtensionsSlice::from_slice"]),
    _h("c07_ip_dispatch", unwind=4, bounds="every rejected byte string of length 0..=44 whose IPv6 next header is not an extension header", encodes=["IpSlice::from_slice"]),
    _h("c07_udp", unwind=4, bounds="every rejected byte string of length 0..=16", encodes=["UdpSlice::from_slice"]),
    _h("c07_tcp", unwind=4, bounds="every rejected byte string of length 0..=64", encodes=["TcpSlice::from_slice"]),
    _h("c07_icmp", unwind=4, bounds="every rejected byte string of length 0..=24", encodes=["Icmpv4Slice::from_slice", "Icmpv6Slice::from_slice"]),
]

GLUE = [
    H("c07_glue_eth_ipv4_tcp", "c03::glue", seed_group="glue-heavy", unwind=2, timeout=1500, bounds="from_ethernet: Ethernet II -> IPv4 (symbolic IHL) -> TCP, 0..=62 bytes", encodes=["SlicedPacket::from_* (SlicedPacketCursor)", "all layer constructors on the path"]),
    H("c07_glue_macsec_vlan_ipv4_udp", "c03::glue", seed_group="glue-heavy", unwind=4, timeout=1500, bounds="from_ether_type(MACSEC): MACsec(unmodified, no SCI) -> VLAN -> IPv4(IHL 5) -> UDP, 0..=42 bytes; short length, total length, UDP length, fragment bits, all other bytes symbolic", encodes=["SlicedPacket::from_* (SlicedPacketCursor)", "all layer constructors on the path"]),
    H("c07_glue_ipv6_route_udp", "c03::glue", unwind=3, timeout=1500, bounds="from_ip: IPv6 -> routing header (symbolic size) -> UDP, 0..=60 bytes", encodes=["SlicedPacket::from_* (SlicedPacketCursor)", "all layer constructors on the path"]),
    H("c07_glue_sll_arp", "c03::glue", unwind=2, timeout=1500, bounds="from_linux_sll: SLL(host, ARPHRD_ETHER) -> ARP with symbolic address sizes, 0..=44 bytes", encodes=["SlicedPacket::from_* (SlicedPacketCursor)", "all layer constructors on the path"]),
    H("c07_glue_vlan_x4", "c03::glue", seed_group="glue-heavy", unwind=5, timeout=1500, bounds="from_ether_type(0x88a8): four stacked VLAN tags (cap of 3 link extensions), 0..=20 bytes", encodes=["SlicedPacket::from_* (SlicedPacketCursor)", "all layer constructors on the path"]),
    H("c07_glue_ipv4_icmp", "c03::glue", unwind=2, timeout=1500, bounds="from_ip: IPv4(IHL 5) -> ICMPv4 incl. timestamp rule and fragment bits, 0..=44 bytes", encodes=["SlicedPacket::from_* (SlicedPacketCursor)", "all layer constructors on the path"]),
    H("c07_glue_ipv6_frag_icmp6", "c03::glue", unwind=3, timeout=1500, bounds="from_ip: IPv6 -> fragment header -> ICMPv6, 0..=60 bytes", encodes=["SlicedPacket::from_* (SlicedPacketCursor)", "all layer constructors on the path"]),
    H("c07_glue_any_ether_type_44", "c03::glue", tier="thorough", unwind=5, timeout=5400, bounds="from_ether_type with symbolic ether type, every byte string of length 0..=44", encodes=["SlicedPacket::from_* (SlicedPacketCursor)", "all layer constructors"]),
    H("c07_glue_any_ip_48", "c03::glue", tier="thorough", unwind=5, timeout=5400, bounds="from_ip, every byte string of length 0..=48", encodes=["SlicedPacket::from_* (SlicedPacketCursor)", "all layer constructors"]),
    H("c07_glue_any_ethernet_48", "c03::glue", tier="thorough", unwind=5, timeout=5400, bounds="from_ethernet, every byte string of length 0..=48", encodes=["SlicedPacket::from_* (SlicedPacketCursor)", "all layer constructors"]),
    H("c07_glue_any_sll_44", "c03::glue", tier="thorough", unwind=5, timeout=5400, bounds="from_linux_sll, every byte string of length 0..=44", encodes=["SlicedPacket::from_* (SlicedPacketCursor)", "all layer constructors"]),
]

_HDR_STUBS = ["IpHeaders::from_ipv4_slice / from_ipv6_slice, ArpPacket::from_slice (strict) and LaxPacketHeaders::add_ip, "
              "ArpPacket::from_slice (lax) -> functions that fail immediately: the harness ASSUMES the reference walk reaches no "
              "network layer, so they are unreachable inside the claim; unstubbed, the 9 KB IpHeaders values of the three network "
              "arms exceed the 20 GB cap"]
HDR = [
    H("c07_hdr_macsec_vlan_lax", "c03::glue", unwind=4, timeout=1800, stubbing=True, stubs=_HDR_STUBS,
      bounds="LaxPacketHeaders::from_ether_type(MACSEC): MACsec(unmodified, no SCI, symbolic short length) -> VLAN -> undecoded ether type, 0..=18 bytes; inputs whose fault (if any) is in a VLAN / MACsec tag",
      encodes=["LaxPacketHeaders::from_ether_type (link extension loop, stop errors)"]),
    H("c07_hdr_vlan_macsec_macsec_lax", "c03::glue", unwind=5, timeout=1800, stubbing=True, stubs=_HDR_STUBS,
      bounds="LaxPacketHeaders::from_ether_type(VLAN): VLAN -> MACsec(symbolic short length) -> MACsec, 0..=24 bytes",
      encodes=["LaxPacketHeaders::from_ether_type (link extension loop, stop errors)"]),
    # c07_hdr_macsec_vlan (strict, 2 deep) is NOT registered: CBMC ran out of memory on it in 2 of 4 runs, also under a
    # 36 GB cap; the strict loop is covered by the 3 deep shape below, the 2 deep shape by its lax twin above.
    H("c07_hdr_vlan_macsec_macsec", "c03::glue", tier="thorough", unwind=5, timeout=3600, stubbing=True, stubs=_HDR_STUBS, mem_gb=36,
      bounds="PacketHeaders::from_ether_type(VLAN): VLAN -> MACsec(symbolic short length) -> MACsec, 0..=24 bytes",
      encodes=["PacketHeaders::from_ether_type (link extension loop, errors)"]),
]

PROP = {
    "max_jobs": 8,  # parallel CBMC jobs (memory profile of these harnesses)
    "claim": "for every rejected input of each layer constructor the error names an admissible layer for the layer "
             "the reference decoder found faulty, its true offset, len == bytes really available (or the value of the "
             "under-claiming length field), required_len is a size that layer legitimately demands with the right "
             "ordering against len, a length source other than Slice is the one that really limited the data, and "
             "content errors carry the value present in the bytes",
    "outside": "inputs longer than the per-harness bound; errors of PacketHeaders / LaxPacketHeaders raised at or behind the network layer are tied to the slice family by the C04 harnesses (IPv4 / ARP skeletons only)",
    "assumptions": ["the reference decoder kani/src/refm.rs is correct (validated natively by kani/src/bin/selfcheck.rs)"],
    "harnesses": PER_LAYER + GLUE + HDR,
}
