from registry import H

ID = "C07"

def _h(name, **kw):
    return H(name, "c03", **kw)

PER_LAYER = [
    _h("c07_eth", unwind=4, bounds="every rejected byte string of length 0..=20", encodes=["Ethernet2Slice::from_slice_without_fcs"]),
    _h("c07_vlan", unwind=4, bounds="every rejected byte string of length 0..=12", encodes=["SingleVlanSlice::from_slice"]),
    _h("c07_macsec", unwind=4, bounds="every rejected byte string of length 0..=28", encodes=["MacsecSlice::from_slice"]),
    _h("c07_sll", unwind=4, bounds="every rejected byte string of length 0..=20", encodes=["LinuxSllSlice::from_slice"]),
    _h("c07_arp", unwind=4, bounds="every rejected byte string of length 0..=32", encodes=["ArpPacketSlice::from_slice"]),
    _h("c07_ipv4", unwind=4, bounds="every rejected byte string of length 0..=44", encodes=["Ipv4Slice::from_slice", "IpAuthHeaderSlice::from_slice"]),
    _h("c07_ipv6_56", unwind=4, timeout=1200, bounds="every rejected byte string of length 0..=56", encodes=["Ipv6Slice::from_slice", "Ipv6ExtensionsSlice::from_slice"]),
    _h("c07_ipv6_64", tier="thorough", unwind=5, timeout=3600, bounds="every rejected byte string of length 0..=64", encodes=["Ipv6Slice::from_slice", "Ipv6ExtensionsSlice::from_slice"]),
    _h("c07_ip_dispatch", unwind=4, bounds="every rejected byte string of length 0..=44 whose IPv6 next header is not an extension header", encodes=["IpSlice::from_slice"]),
    _h("c07_udp", unwind=4, bounds="every rejected byte string of length 0..=16", encodes=["UdpSlice::from_slice"]),
    _h("c07_tcp", unwind=4, bounds="every rejected byte string of length 0..=64", encodes=["TcpSlice::from_slice"]),
    _h("c07_icmp", unwind=4, bounds="every rejected byte string of length 0..=24", encodes=["Icmpv4Slice::from_slice", "Icmpv6Slice::from_slice"]),
]

PROP = {
    "claim": "for every rejected input of each layer constructor the error names an admissible layer for the layer "
             "the reference decoder found faulty, its true offset, len == bytes really available (or the value of the "
             "under-claiming length field), required_len is a size that layer legitimately demands with the right "
             "ordering against len, a length source other than Slice is the one that really limited the data, and "
             "content errors carry the value present in the bytes",
    "outside": "inputs longer than the per-harness bound",
    "assumptions": ["the reference decoder kani/src/refm.rs is correct (validated natively by kani/src/bin/selfcheck.rs)"],
    "harnesses": PER_LAYER,
}
