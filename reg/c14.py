from registry import H

# ----------------------------------------------------------------------------- C14
_K64 = "etherparse::checksum::u64_16bit_word"
_HAVOC = [
    _K64 + "::add_slice -> c14::g_add_slice (havoc: returns an unconstrained value, never reads the slice, logs the "
           "slice length; over-approximates the real function, whose value C09 decides)",
    _K64 + "::{add_2bytes,add_4bytes,add_8bytes} -> c14::g_add2/g_add4/g_add8 (havoc: unconstrained result, log the "
           "bytes passed in; over-approximate the real kernels, whose values C09 decides)",
]
_OBJ = "slice = a real zero filled heap object of SYMBOLIC size, every size 0..=2^33 (8 GiB > u32::MAX + 2^16)"


def _n(name, unwind, bounds, enc, tier="quick", timeout=600):
    # stubbing=True only so that the whole property runs in ONE cargo-kani invocation; no stub is applied
    return H(name, "c14", tier=tier, timeout=timeout, unwind=unwind, bounds=bounds, encodes=enc, stubbing=True)


def _s(name, unwind, bounds, enc=(), tier="quick", timeout=900):
    return H(name, "c14", tier=tier, timeout=timeout, unwind=unwind, bounds=bounds, encodes=enc, stubs=_HAVOC,
             stubbing=True)


ID = "C14"
PROP = {
    "max_jobs": 8,  # parallel CBMC jobs (memory profile of these harnesses)
    "claim":
        "For every API listed under 'encodes' the caller-supplied length is ONE symbolic variable over its whole "
        "range - every usize for lengths passed as numbers (all u16 for Ipv4Header::new, all u8 for "
        "MacsecShortLen::try_from_u8), every slice length 0..=2^33 for lengths passed as slices (a real zero filled "
        "heap object of symbolic size, so both sides of every 8/16/32 bit limit and values whose low 8/16/32 bits "
        "would fit are inside the bound) - together with all other header fields (IPv4 options 0,4..40 bytes, TCP "
        "options 0..40 bytes, optional AH / fragment extension headers, all four MACsec payload types, all 12 "
        "Icmpv6Type variants). Decided by CBMC on the real code against limits written in the harness from the "
        "field widths and RFC header sizes (no constant of etherparse): (a) accepted <=> representable: IPv4 total "
        "length 65535 - 20 - options (- extension headers for IpHeaders), IPv6 payload length 65535 (- extension "
        "headers), UDP length 65535 - 8, TCP pseudo header 65535 - header (IPv4) / 2^32-1 - header (IPv6), TcpSlice: "
        "whole segment 65535 / 2^32-1, UDP/ICMPv6 over IPv6 pseudo header 2^32-1 - 8, MACsec short length 63 (61 "
        "with the ether type of an unmodified payload), AH ICV 1016 and multiple of 4, raw extension payload 6..2046 "
        "and = 6 mod 8, IPv4 options 40 and multiple of 4, TCP options 40 (padded), ARP address lengths 255 and "
        "sender == target; (b) an accepted value is stored exactly and read back from the encoded bytes "
        "(to_bytes / write: total length, payload length, UDP length, IHL, data offset, AH payload len, hdr ext len, "
        "short length; ARP length bytes at the maximum 255/255; for the checksum-only APIs the length word fed to "
        "the checksum kernels is the exact 16 / 32 bit value and the whole payload slice is summed once); (c) a "
        "rejected value yields an error with actual = the offending value, max_allowed = the true maximum and the "
        "right ValueType (IcvLenError / ExtPayloadLenError / BadOptionsLen / NotEnoughSpace / Arp*AddrError: the "
        "variant names a fault that is present and carries the offending length(s)); MACsec: the documented "
        "'unknown' short length 0; (d) a rejected call leaves every field of the header unchanged (option / ICV / "
        "payload / address bytes compared at one symbolic position). PacketBuilder (Ethernet II / IPv4 / UDP and "
        "TCP, `write` into a counting writer): accepted <=> payload <= 65535 - 20 - transport header, IPv4 total "
        "length and UDP length in the written bytes are exact, otherwise BuildWriteError::PayloadLen with the "
        "IPv4 value type. TransportHeader::update_checksum_ipv4/ipv6 dispatch every variant to the limit of its own "
        "protocol. IpHeaders::set_payload_len and the builder report the excess either in the caller's units or "
        "after adding extension / transport header lengths to both numbers (both accepted: the documentation does "
        "not say which).",
    "outside":
        "slices longer than 2^33 bytes (lengths given as numbers are complete). Checksum VALUES (C09; here the "
        "kernels are havoc stubs, and the observation 'length word fed to the kernels' is tied to the crate feeding "
        "the pseudo header length as one 2 byte / 4 byte big endian chunk). PacketBuilder over IPv6 (any transport) "
        "and builders carrying extension headers: Ipv6Extensions::write_internal exhausts the 20 GB memory cap "
        "under CBMC even with empty extensions and stubbed to_bytes (measured), so for IPv6 only the pieces the "
        "builder composes are decided (Ipv6Header::set_payload_length, IpHeaders::set_payload_len, "
        "TransportHeader::update_checksum_ipv6); write_to_vec / write_to_slice (same final_write_with_net; "
        "write_to_slice checks the buffer space before the length); VLAN / Linux SLL builder variants (same "
        "IPv4 length code). ArpPacket::to_bytes with symbolic address lengths (exhausts memory): the encoded length "
        "bytes are read at 255/255 only, otherwise through hw_addr_size()/protocol_addr_size() (C08 decides "
        "to_bytes against the accessors). IpAuthHeader / Ipv6RawExtHeader encoded length byte is read through "
        "write() (to_bytes == write is C08). Content of copied option / ICV / payload bytes beyond one symbolic "
        "position (C08). UdpHeader::calc_checksum_ipv6(_raw) accepts payloads up to 2^32-1-8 but sums the 16 bit "
        "`length` field of the header into the pseudo header - whether that is the right checksum for a payload "
        "longer than 65527 is a C09 question, not asserted here.",
    "assumptions": [
        "limits in kani/src/c14.rs are written from the field widths of RFC 791 (total length, IHL), RFC 8200 "
        "(payload length, hdr ext len, 32 bit upper-layer packet length), RFC 768, RFC 9293 (data offset, 16 bit TCP "
        "length of the IPv4 pseudo header), RFC 4443, RFC 4302 (payload len), RFC 826 (8 bit address lengths), IEEE "
        "802.1AE (6 bit short length) and share no constant with etherparse",
        "the checksum kernels and add_slice are replaced by havoc stubs wherever a payload slice would be summed "
        "(listed per harness); the control flow of the crate never depends on a checksum accumulator",
        "allocation of the symbolic-size object succeeds (CBMC: objects up to 2^47 bytes with 16 object bits)",
    ],
    "harnesses": [
        _n("c14_ipv4_new", 8, "all 2^16 payload lengths, all other arguments",
           ["Ipv4Header::new", "Ipv4Header::to_bytes", "Ipv4Header::payload_len"]),
        _n("c14_ipv4_set_payload_len", 8, "every usize; options 0,4..40 bytes; all field values",
           ["Ipv4Header::set_payload_len", "Ipv4Header::max_payload_len", "Ipv4Header::to_bytes",
            "Ipv4Header::payload_len"]),
        _n("c14_ipv6_set_payload_length", 20, "every usize; all field values",
           ["Ipv6Header::set_payload_length", "Ipv6Header::to_bytes"]),
        _n("c14_ip_headers_v4_set_payload_len", 12,
           "every usize; IPv4 options 0,4..40 bytes; without / with AH (ICV 0, 4, 8 bytes)",
           ["IpHeaders::set_payload_len (Ipv4 arm)", "Ipv4Extensions::header_len", "Ipv4Header::set_payload_len"]),
        _n("c14_ip_headers_v6_set_payload_len", 20,
           "every usize; all 4 combinations of fragment header / AH (ICV 0, 4, 8 bytes)",
           ["IpHeaders::set_payload_len (Ipv6 arm)", "Ipv6Extensions::header_len", "Ipv6Header::set_payload_length"]),
        _n("c14_ip_headers_v6_overflow_value_type", 4,
           "every len > usize::MAX - 8 with a fragment header present (len + extension headers overflows usize); lean "
           "harness so that the trace of the known finding can be replayed natively",
           ["IpHeaders::set_payload_len (Ipv6 arm, checked_add overflow branch)"]),
        _n("c14_udp_without_checksum", 4, "every usize; all ports",
           ["UdpHeader::without_ipv4_checksum", "UdpHeader::to_bytes"]),
        _n("c14_macsec_short_len", 4, "all 2^8 values; every usize",
           ["MacsecShortLen::try_from_u8", "MacsecShortLen::from_len"]),
        _n("c14_macsec_set_payload_len", 20, "every usize; all 4 payload types, with/without SCI, all field values",
           ["MacsecHeader::set_payload_len", "MacsecHeader::expected_payload_len", "MacsecHeader::to_bytes"]),
        _n("c14_auth_new", 4, _OBJ + "; one symbolic byte at a symbolic position",
           ["IpAuthHeader::new", "IpAuthHeader::raw_icv", "IpAuthHeader::header_len", "IpAuthHeader::write"]),
        _n("c14_auth_set_raw_icv", 4, _OBJ + "; previous ICV of 0, 4, 8 bytes",
           ["IpAuthHeader::set_raw_icv", "IpAuthHeader::raw_icv", "IpAuthHeader::header_len", "IpAuthHeader::write"]),
        _n("c14_raw_ext_new", 4, _OBJ + "; one symbolic byte at a symbolic position",
           ["Ipv6RawExtHeader::new_raw", "Ipv6RawExtHeader::payload", "Ipv6RawExtHeader::header_len",
            "Ipv6RawExtHeader::write"]),
        _n("c14_raw_ext_set_payload", 4, _OBJ + "; previous payload of 6 or 14 bytes",
           ["Ipv6RawExtHeader::set_payload", "Ipv6RawExtHeader::payload", "Ipv6RawExtHeader::header_len",
            "Ipv6RawExtHeader::write"]),
        _n("c14_ipv4_options_try_from", 8, _OBJ + "; directly and through the header",
           ["Ipv4Options::try_from(&[u8])", "Ipv4Header::set_options", "Ipv4Header::ihl", "Ipv4Header::to_bytes"]),
        _n("c14_tcp_options_try_from_slice", 42, _OBJ + "; directly and through the header",
           ["TcpOptions::try_from_slice", "TcpHeader::set_options_raw", "TcpOptions::data_offset",
            "TcpHeader::to_bytes"]),
        _n("c14_arp_new", 4, "four slices of independent symbolic size 0..=2^33 each",
           ["ArpPacket::new", "ArpPacket::{hw_addr_size,protocol_addr_size,packet_len,*_addr}"]),
        _n("c14_arp_set_addrs", 4, "two slices of independent symbolic size 0..=2^33; previous sizes 6/1 and 4/0",
           ["ArpPacket::set_hw_addrs", "ArpPacket::set_protocol_addrs"]),
        _n("c14_arp_new_encoded_max", 10, "address lengths 255 / 255 (concrete), all type / operation values",
           ["ArpPacket::new", "ArpPacket::to_bytes"]),
        _s("c14_udp_ipv4_slice", 21, _OBJ + "; all ports / addresses",
           ["UdpHeader::with_ipv4_checksum", "UdpHeader::calc_checksum_ipv4", "UdpHeader::calc_checksum_ipv4_raw"]),
        _s("c14_udp_ipv6_slice", 21, _OBJ + "; all ports / addresses",
           ["UdpHeader::with_ipv6_checksum", "UdpHeader::calc_checksum_ipv6", "UdpHeader::calc_checksum_ipv6_raw"]),
        _s("c14_tcp_header_ipv4", 21, _OBJ + "; TCP options 0..40 bytes, all field values",
           ["TcpHeader::calc_checksum_ipv4", "TcpHeader::calc_checksum_ipv4_raw"]),
        _s("c14_tcp_header_ipv6", 21, _OBJ + "; TCP options 0..40 bytes, all field values",
           ["TcpHeader::calc_checksum_ipv6", "TcpHeader::calc_checksum_ipv6_raw"]),
        _s("c14_tcp_slice_calc", 21, "segment = zero object of every size header..=2^33, data offset 5..15",
           ["TcpSlice::from_slice", "TcpSlice::calc_checksum_ipv4", "TcpSlice::calc_checksum_ipv6"]),
        _s("c14_tcp_header_slice_calc", 21, _OBJ + "; data offset 5..15, all header bytes",
           ["TcpHeaderSlice::from_slice", "TcpHeaderSlice::calc_checksum_ipv4_raw",
            "TcpHeaderSlice::calc_checksum_ipv6_raw"]),
        _s("c14_icmpv6_calc", 21, _OBJ + "; all 12 Icmpv6Type variants, all addresses",
           ["Icmpv6Type::calc_checksum", "Icmpv6Header::with_checksum", "Icmpv6Header::update_checksum"]),
        _s("c14_transport_update_checksum", 42, _OBJ + "; UDP / TCP (options 0..40) / ICMPv6 (12 variants) x IPv4 / IPv6",
           ["TransportHeader::update_checksum_ipv4", "TransportHeader::update_checksum_ipv6"]),
        _s("c14_builder_ipv4_udp", 41, _OBJ + "; all addresses / ports",
           ["PacketBuilder::ethernet2().ipv4().udp().write", "Ipv4Header::set_payload_len",
            "TransportHeader::update_checksum_ipv4"]),
        _s("c14_builder_ipv4_tcp", 41, _OBJ + "; all addresses / ports / sequence / window values, no TCP options",
           ["PacketBuilder::ethernet2().ipv4().tcp().write", "Ipv4Header::set_payload_len",
            "TransportHeader::update_checksum_ipv4"]),
        _s("c14_builder_ipv4_icmpv4", 41, _OBJ + "; all addresses, echo id / sequence", tier="thorough",
           enc=["PacketBuilder::ethernet2().ipv4().icmpv4_echo_request().write", "Ipv4Header::set_payload_len",
                "TransportHeader::update_checksum_ipv4"]),
    ],
}
