from registry import H

# ----------------------------------------------------------------------------- C13
ID = "C13"

_ENC = ["TcpOptions::try_from_elements", "TcpOptions::{as_slice,len,len_u8,is_empty,data_offset}"]
_DEC = ["TcpOptions::elements_iter", "TcpOptionsIterator::{next,rest}"]
_IT = ["TcpOptionsIterator::{from_slice,next,rest}"]
_ALL = "all six kinds, every presence pattern of the 3 optional SACK blocks (gaps included), all field values"


def _enc(k, tier, unwind, timeout, lo, hi):
    return H("c13_encode_k%d" % k, "c13", tier=tier, unwind=unwind, timeout=timeout,
             bounds="every list of exactly %d arbitrary elements (%s); %d..%d bytes" % (k, _ALL, lo, hi),
             encodes=_ENC)


PROP = {
    "claim": "(a) ENCODING: for every list of exactly 0,1,..,6 arbitrary option elements (all six kinds, every presence "
             "pattern of the three optional SACK blocks including gaps, all field values; 0..204 bytes, 40 and 41 reached "
             "from 3 elements on), every list of 38 elements that are No-Operation except one arbitrary element at the "
             "first / middle / last position (38..71 bytes), and the lists of 40 and 41 No-Operations: "
             "TcpOptions::try_from_elements accepts iff the reference size (RFC 9293/2018/7323) is <= 40; the bytes equal "
             "the reference encoding byte for byte, followed only by 0 (END) up to the next multiple of four; len / len_u8 / "
             "is_empty / data_offset are those of the padded size; a rejected list yields NotEnoughSpace(reference size). "
             "ROUND TRIP, direct: for every list of exactly 0,1,2 (quick) and 3 (thorough) arbitrary elements (and 40 No-Operations) iterating the "
             "encoded options yields exactly the encoded elements (SACK blocks as the sequence of present blocks), every "
             "rest() is the suffix behind the element, then only END padding (< 4 zero bytes) remains, next() is None and "
             "rest() is empty. ROUND TRIP, lists of 4..6 elements and the long lists: by composition of three solver-checked "
             "lemmas - real encoder = reference encoder (c13_encode_*), real iterator step = reference decoder step on every "
             "slice of 0..40 bytes (c13_iter_step), reference decoder inverts reference encoder whatever follows "
             "(c13_ref_inverse). Same checks through TryFrom<&[TcpOptionElement]> (1, 2 elements) and TcpHeader::set_options / "
             "options_iterator (0..2 elements round trip, 3 elements bytes; stale previous options must not shine through). "
             "(b) DECODING: every iterator state (= every slice of 0..40 bytes, placed in a heap object of exactly that size so "
             "that any read outside the slice fails): one next() agrees with an independent reference decoder - a well formed "
             "option is yielded as the reference element, consumes exactly its wire size (rest() = suffix behind it) and "
             "re-encodes to the consumed bytes; END or no byte gives None; a malformed / unknown option gives an error whose "
             "kind, length byte, expected and remaining length are the real ones; after None / an error rest() is empty. An "
             "empty iterator returns None and stays empty (3 calls). By induction over the steps (the iterator has no state "
             "besides rest(): size_of is asserted) this decides complete iterations of every raw option area of 0..40 bytes: "
             "elements tile a prefix, iteration stops at the first END / malformed / unknown option, then stays exhausted, at "
             "most len+1 calls. Complete iterations are additionally executed directly (area on the stack, sizes of the yielded "
             "elements must add up to the position of rest()) for every area of 0..6 bytes (quick) and 0..12 bytes (thorough). Raw areas of 0..44 bytes through TcpHeader::set_options_raw / "
             "TcpOptions::try_from_slice / TryFrom<&[u8]> (zero padded to a multiple of 4; > 40 rejected with the length), "
             "TcpOptions::from([u8; 4..40]), and the option area of every sliced TCP header of 0..60 bytes "
             "(TcpHeaderSlice::options / options_iterator = bytes 20..4*data_offset, to_header keeps them).",
    "outside": "lists of more than 6 arbitrary elements (beyond the 38-element lists with one arbitrary element); directly "
               "executed complete iterations of raw areas longer than 12 bytes (covered by the induction only: a direct walk "
               "of 16 bytes ran out of memory); where a fixed size option has a wrong length byte AND does not fit into the "
               "remaining bytes either of the two documented errors is accepted (the documentation does not rank them); for "
               "a SACK option whose length byte is missing expected_len 2 or 10 is accepted; on NotEnoughSpace the previous "
               "options of a TcpHeader are only required to stay a valid option area; Debug/Display formatting of options "
               "and errors, TcpSlice::options_iterator (same expression as TcpHeaderSlice) and the serialisation of the "
               "header around the options (C08) are not part of this property's harnesses",
    "assumptions": ["reference encoder / one-step decoder in kani/src/c13.rs are transcribed from RFC 9293 3.1, RFC 2018 "
                    "and RFC 7323 and share no code or constant with etherparse; option kinds other than 0,1,2,3,4,5,8 are "
                    "'unknown' as documented for TcpOptionElement / TcpOptionReadError::UnknownId; a SACK option carries "
                    "1..4 blocks (element type has a mandatory first block; 40 byte limit)",
                    "the induction from single steps to whole iterations relies on TcpOptionsIterator having no state "
                    "besides the slice returned by rest() (size_of::<TcpOptionsIterator>() == size_of::<&[u8]>() is "
                    "asserted in c13_iter_step)",
                    "loop bounds: encoder loops = list length, SACK block loops = 3, iterator walk = area length + 1; each "
                    "harness runs with unwind = largest bound + 1 and CBMC's unwinding assertions on"],
    "harnesses": [
        # ---- (b) decoding
        H("c13_iter_step", "c13", unwind=4, timeout=900,
          bounds="every slice of 0..40 bytes (heap object of exactly that size), one next(); loop bound: 3 SACK blocks",
          encodes=_IT),
        H("c13_iter_progress", "c13", unwind=4, timeout=900,
          bounds="every slice of 0..40 bytes (heap object of exactly that size), one next() + 1 follow-up call, no oracle",
          encodes=_IT),
        H("c13_iter_exhausted", "c13", unwind=4, timeout=600,
          bounds="empty iterator at every position of an 8 byte area and over &[], 3 calls", encodes=_IT),
        H("c13_iter_walk_6", "c13", unwind=8, timeout=1200,
          bounds="every raw area of 0..6 bytes, complete iteration, at most 7 calls + 1", encodes=_IT),
        H("c13_iter_walk_12", "c13", tier="thorough", unwind=14, timeout=2700,
          bounds="every raw area of 0..12 bytes, complete iteration, at most 13 calls + 1", encodes=_IT),
        H("c13_ref_inverse", "c13", unwind=4, timeout=600,
          bounds="reference only: every element followed by arbitrary bytes in an area of up to 40 bytes; END; empty area",
          encodes=["(none: lemma about the reference encoder/decoder used to compose c13_encode_* with c13_iter_step)"]),
        # ---- (a) encoding: real encoder = reference encoder
        H("c13_encode_k1", "c13", unwind=4, timeout=900,
          bounds="every list of exactly 1 arbitrary element (%s), also through TryFrom; 1..34 bytes" % _ALL,
          encodes=_ENC + ["<TcpOptions as TryFrom<&[TcpOptionElement]>>::try_from"]),
        _enc(2, "quick", 4, 900, 2, 68),
        H("c13_encode_tryfrom_k2", "c13", unwind=4, timeout=900,
          bounds="every list of exactly 2 arbitrary elements; 2..68 bytes",
          encodes=["<TcpOptions as TryFrom<&[TcpOptionElement]>>::try_from"] + _ENC[1:]),
        _enc(3, "quick", 4, 900, 3, 102),
        H("c13_encode_boundary", "c13", unwind=4, timeout=900,
          bounds="SACK with 4 arbitrary blocks followed by exactly 2 arbitrary elements; 36..102 bytes (40 and 41 reached)",
          encodes=_ENC),
        _enc(4, "quick", 5, 1800, 4, 136),
        _enc(5, "thorough", 6, 2700, 5, 170),
        _enc(6, "thorough", 7, 2700, 6, 204),
        H("c13_encode_long_first", "c13", tier="thorough", unwind=39, timeout=2700,
          bounds="38 elements: one arbitrary element followed by 37 No-Operations; 38..71 bytes", encodes=_ENC),
        H("c13_encode_long_middle", "c13", tier="thorough", unwind=39, timeout=2700,
          bounds="38 elements: No-Operations with one arbitrary element at position 19; 38..71 bytes", encodes=_ENC),
        H("c13_encode_long_last", "c13", tier="thorough", unwind=39, timeout=2700,
          bounds="38 elements: 37 No-Operations followed by one arbitrary element; 38..71 bytes", encodes=_ENC),
        H("c13_encode_noops", "c13", tier="thorough", unwind=42, timeout=2700,
          bounds="the lists of 40 and of 41 No-Operations (concrete), complete iteration of the 40 byte result",
          encodes=_ENC + _DEC),
        # ---- (a) direct round trip
        H("c13_roundtrip_k1", "c13", unwind=4, timeout=1200,
          bounds="every list of exactly 1 arbitrary element, encode then iterate to the end", encodes=_ENC + _DEC),
        H("c13_roundtrip_k0", "c13", unwind=4, timeout=1200,
          bounds="the empty list through try_from_elements, TryFrom and TcpHeader::set_options, then iterate",
          encodes=_ENC + _DEC + ["<TcpOptions as TryFrom<&[TcpOptionElement]>>::try_from", "TcpHeader::set_options",
                                 "TcpHeader::options_iterator"]),
        H("c13_roundtrip_k2", "c13", unwind=4, timeout=1800,
          bounds="every list of exactly 2 arbitrary elements, encode then iterate to the end", encodes=_ENC + _DEC),
        H("c13_roundtrip_k3", "c13", tier="thorough", unwind=4, timeout=2700,
          bounds="every list of exactly 3 arbitrary elements (40 and 41 bytes reached), encode then iterate to the end",
          encodes=_ENC + _DEC),
        # ---- headers and raw areas
        H("c13_header_roundtrip_k1", "c13", unwind=4, timeout=1200,
          bounds="every list of exactly 1 arbitrary element, arbitrary 40 byte previous options, encode then iterate",
          encodes=["TcpHeader::set_options", "TcpHeader::options_iterator", "TcpHeader::{data_offset,header_len,header_len_u16}",
                   "TcpOptionsIterator::{next,rest}"] + _ENC[1:]),
        H("c13_header_roundtrip_k2", "c13", tier="thorough", unwind=4, timeout=2700,
          bounds="every list of exactly 2 arbitrary elements, arbitrary 40 byte previous options",
          encodes=["TcpHeader::set_options", "TcpHeader::options_iterator", "TcpHeader::{data_offset,header_len,header_len_u16}",
                   "TcpOptionsIterator::{next,rest}"] + _ENC[1:]),
        H("c13_header_set_options_k3", "c13", tier="thorough", unwind=4, timeout=1800,
          bounds="every list of exactly 3 arbitrary elements (bytes only), arbitrary 40 byte previous options",
          encodes=["TcpHeader::set_options", "TcpHeader::{data_offset,header_len,header_len_u16}"] + _ENC[1:]),
        H("c13_header_set_options_raw", "c13", unwind=4, timeout=900,
          bounds="raw areas of 0..44 bytes (heap object of exactly that size), arbitrary 40 byte previous options, one "
                 "iterator step",
          encodes=["TcpHeader::set_options_raw", "TcpHeader::options_iterator", "TcpHeader::{data_offset,header_len}",
                   "TcpOptions::{as_slice,len,len_u8,is_empty,data_offset}", "TcpOptionsIterator::{next,rest}"]),
        H("c13_options_from_slice", "c13", unwind=4, timeout=600,
          bounds="raw areas of 0..44 bytes (heap object of exactly that size)",
          encodes=["TcpOptions::try_from_slice", "<TcpOptions as TryFrom<&[u8]>>::try_from",
                   "TcpOptions::{as_slice,len,len_u8,is_empty,data_offset,elements_iter}"]),
        H("c13_options_from_array", "c13", unwind=4, timeout=600,
          bounds="all byte arrays of 4, 8, .. 40 bytes",
          encodes=["<TcpOptions as From<[u8; N]>>::from (N = 4..40 step 4)",
                   "TcpOptions::{as_slice,len,len_u8,data_offset,elements_iter}"]),
        H("c13_header_slice_options", "c13", unwind=4, timeout=900,
          bounds="every slice of 0..60 bytes (heap object of exactly that size) accepted as a TCP header, one iterator step "
                 "on the slice and one on the decoded header",
          encodes=["TcpHeaderSlice::{from_slice,options,options_iterator,to_header}", "TcpHeader::{options_iterator,data_offset}",
                   "TcpOptionsIterator::{next,rest}"]),
    ],
}

