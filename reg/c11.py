from registry import H

# ----------------------------------------------------------------------------- C11
_F = ["hooks"]
_ADD = ["IpDefragBuf::verif_from_parts (hook)", "IpDefragBuf::add", "IpFragRange::merge", "Vec::retain",
        "IpDefragBuf::{data,sections,end,is_complete,ip_number}"]
_HIST = ["IpDefragBuf::new", "IpDefragBuf::add", "IpFragRange::merge", "IpDefragBuf::{is_complete,data,sections,end,"
         "ip_number,take_bufs}", "IpDefragBuf::verif_from_parts (hook, re-seating between deliveries)"]
_POOL = ["IpDefragPool::{new,return_buf,process_sliced_packet,verif_counts (hook)}", "verif_map::HashMap (hook)",
         "IpDefragBuf::{new,add,take_bufs}", "SlicedPacket::vlan_ids", "SingleVlanSlice::from_slice"]

ID = "C11"
PROP = {
    "claim": "(1) IpFragRange::merge: for all 2^64 pairs of ranges with start<=end, Some iff the closed ranges overlap or "
             "touch, and then their hull, in both argument orders. "
             "(2) Induction over delivery histories of ANY length on one IpDefragBuf: IpDefragBuf::new on dirty vectors "
             "yields the empty state; from EVERY state satisfying the invariant I (sections well formed, inside data, "
             "pairwise disconnected; end set => data.len()==end and a section ends there; state bound <=3 sections, "
             "<=48 data bytes, any content, any stale bytes behind len) ONE add with an arbitrary fragment (all 8192 "
             "offsets, either MF, 0..16 arbitrary bytes) fails iff the fragment is unaligned / oversized / reaches "
             "behind or contradicts the announced end / announces an end in front of received bytes - with an error "
             "value naming a present fault with the right numbers and leaving sections, end, data length and bytes "
             "untouched - and otherwise re-establishes I, covers exactly old coverage + fragment, updates end iff MF=0, "
             "writes exactly the fragment bytes (frame condition: everything else unchanged) and reports is_complete "
             "iff the end is known and no byte before it is missing (ghost coverage bit mask). "
             "(3) Bounded histories on the real constructor: every payload of 1..32 bytes, every cutting at 8-aligned "
             "points (1..4 fragments), every sequence of 3 / 4 / 6 deliveries of fragments of that cutting (all "
             "permutations and duplications of that length), recycled data buffer pre-filled with independent symbolic "
             "bytes and recycled section list with stale entries: every delivery Ok, completion exactly from the "
             "delivery on that supplies the last missing block, then data == payload for every value of the old bytes, "
             "end == length, ip number kept, one section; delivered blocks are in place before completion; with up to 4 "
             "deliveries each of which may instead be a fragment that must be rejected (unaligned, oversized, behind / "
             "contradicting the announced end): exact error value, no effect on the rest of the history. "
             "(4) Pool, first packet of a stream on a pool holding one recycled buffer, through the real "
             "process_sliced_packet, IPv4 and IPv6 (with / without fragment header), 0..2 VLAN tags, arbitrary "
             "addresses / identification / protocol / channel / ignored header fields, all offsets, either MF, 0..8 "
             "payload bytes: unfragmented (incl. IPv6 atomic fragment, ARP, no net layer) -> Ok(None) and pool "
             "untouched; inconsistent first fragment -> documented error, no entry, both buffers back in the free "
             "lists; any other fragment -> Ok(None), exactly one entry, recycled buffer in use",
    "outside": "pool level beyond the FIRST delivery into a pool: interleaving of streams, completion through the pool "
               "(returned payload / protocol / len_source), removal of the entry, reuse of a returned buffer by another "
               "stream, retain() - a second process_sliced_packet call on the same pool exceeds 16 GB in CBMC (measured, "
               "also with concrete ids and with a prototype that splits extraction from dispatch); stream separation "
               "therefore rests on (2)/(3) per IpDefragBuf plus inspection of the dispatch code; the stream key itself "
               "(every id component taken from the right header field) is decided by the prepared harness "
               "check_key only once the pool exposes its packet->key step (hook proposal, see report). Also outside: "
               "pre-states with more than 3 sections / 48 data bytes and fragments longer than 16 bytes in the inductive "
               "step; histories with more than 4 fragments or 6 deliveries (covered by the induction only); overlapping "
               "fragments with DIFFERENT content (etherparse lets the later one win, pinned by its tests); "
               "AllocationFailure; reads of uninitialised bytes (value-level leak check only); payload protocols that "
               "etherparse slices as IP extension headers (v4: 51, v6: 0/43/44/51/60 - the slicer keeps parsing inside "
               "fragment data, a slicing-layer convention)",
    "assumptions": [
        "verif-hooks feature of etherparse: IpDefragBuf::verif_from_parts only assembles the four fields; "
        "IpDefragPool::verif_counts only reads three lengths; the association list replacing std HashMap uses the real "
        "Eq of IpFragId (std HashMap and Hash/Eq consistency of the derived impls are trusted)",
        "history harnesses: between two deliveries the buffer state is moved into fresh allocations of the same content "
        "(all 32 bytes of the data buffer incl. stale bytes behind len, length, sections in order, end, ip number) via "
        "verif_from_parts; IpDefragBuf has no other state, so this is the identity on the abstract state; it is needed "
        "because the infeasible Vec growth paths otherwise pile up objects of symbolic size (CBMC > 25 GB at the 4th "
        "delivery)",
        "pool harnesses: the SlicedPacket is assembled from the per-layer slicers (SingleVlanSlice::from_slice, "
        "Ipv4Slice/Ipv6Slice::from_slice, ArpPacketSlice::from_slice) - the pool reads link_exts and net only; "
        "agreement of these with SlicedPacket::from_ethernet is C06; payload protocol restricted to numbers that are "
        "not sliced as IP extension headers (IPv4: != 51; IPv6: not 0, 43, 44, 51, 60)",
        "oracles (interval coverage, bit masks, error predicates) are written from RFC 791 section 3.2, RFC 8200 section "
        "4.5 and the doc comments of IpDefragError; they share no code with etherparse",
    ],
    "harnesses": [
        H("c11_merge_complete", "c11", unwind=2, timeout=900, features=_F,
          bounds="all 2^64 pairs of ranges with start <= end, both argument orders",
          encodes=["IpFragRange::merge"]),
        H("c11_buf_new", "c11", unwind=4, timeout=900, features=_F,
          bounds="data vector with 0..8 old bytes, section vector with 0..2 stale entries, any ip number",
          encodes=["IpDefragBuf::new", "IpDefragBuf::{ip_number,data,sections,end,is_complete,take_bufs}"]),
        H("c11_add_step_result", "c11", unwind=5, timeout=900, features=_F,
          bounds="pre-state: any state satisfying I with <= 3 sections, <= 48 data bytes; fragment: offset 0..8191, MF "
                 "any, 0..16 arbitrary bytes; checks Ok/Err classification, error values, no effect of a rejected fragment",
          encodes=_ADD),
        H("c11_add_step_bytes", "c11", unwind=5, timeout=900, features=_F,
          bounds="same pre-states and fragments, accepted case: end, data length, frame condition on every byte",
          encodes=_ADD),
        H("c11_add_step_sections", "c11", unwind=5, timeout=900, features=_F,
          bounds="same pre-states and fragments, accepted case: invariant I re-established, coverage = old + fragment "
                 "for every position 0..65535",
          encodes=_ADD),
        H("c11_add_step_complete", "c11", unwind=5, timeout=900, features=_F,
          bounds="same pre-states and fragments, accepted case: is_complete == ghost completeness (128 bit coverage mask)",
          encodes=_ADD),
        H("c11_hist_3", "c11", unwind=4, timeout=900, features=_F,
          bounds="payload 1..32 B, all 8 cuttings (<= 4 fragments), all 4^3 delivery sequences of 3, 32 symbolic old bytes",
          encodes=_HIST),
        H("c11_pool_first_v4", "c11", unwind=5, timeout=900, features=_F,
          bounds="1 delivery: IPv4, 0..2 VLAN tags, all ids, all 8192 offsets, either MF, 0..8 payload bytes, pool with 1 "
                 "recycled buffer (16 symbolic old bytes)",
          encodes=_POOL + ["Ipv4Slice::from_slice"]),
        H("c11_hist_4", "c11", tier="thorough", unwind=4, timeout=2400, features=_F,
          bounds="payload 1..32 B, all 8 cuttings, all delivery sequences of 4 (every permutation of <= 4 fragments)",
          encodes=_HIST),
        H("c11_hist_6", "c11", tier="thorough", unwind=4, timeout=2400, features=_F,
          bounds="payload 1..32 B, all 8 cuttings, all delivery sequences of 6 (permutations and duplications)",
          encodes=_HIST),
        H("c11_hist_rej_4", "c11", tier="thorough", unwind=4, timeout=2400, features=_F,
          bounds="as c11_hist_4, every delivery may instead be a fragment that must be rejected (unaligned / oversized / "
                 "conflicting with the announced end; offset 0..8191, 0..16 bytes)",
          encodes=_HIST),
        H("c11_pool_first_v6", "c11", tier="thorough", unwind=5, timeout=2400, features=_F,
          bounds="1 delivery: IPv6 with / without fragment header, 0..2 VLAN tags, all ids, all offsets, either MF, 0..8 "
                 "payload bytes, pool with 1 recycled buffer",
          encodes=_POOL + ["Ipv6Slice::from_slice", "Ipv6ExtensionsSlice iterator", "Ipv6FragmentHeaderSlice::to_header"]),
        H("c11_pool_stored_key_v4", "c11", unwind=5, timeout=1500, features=_F,
          bounds="1 accepted fragment: IPv4, 0..2 VLAN tags, all ids / addresses / protocol / channel; the key stored by the pool "
                 "(hook verif_first_active_id) is compared component by component with the packet's fields",
          encodes=_POOL + ["IpDefragPool::verif_first_active_id (hook)", "Ipv4Slice::from_slice"]),
        H("c11_pool_stored_key_v6", "c11", unwind=5, timeout=2400, features=_F,
          bounds="1 accepted fragment: IPv6 + fragment header, 0..2 VLAN tags, all ids / addresses / protocol / channel; stored key "
                 "compared component by component",
          encodes=_POOL + ["IpDefragPool::verif_first_active_id (hook)", "Ipv6Slice::from_slice"]),
        H("c11_pool_non_ip", "c11", tier="thorough", unwind=5, timeout=2400, features=_F,
          bounds="1 delivery: any well formed 28 byte ARP packet or no net layer, pool with 1 recycled buffer",
          encodes=["IpDefragPool::{new,return_buf,process_sliced_packet,verif_counts (hook)}", "ArpPacketSlice::from_slice"]),
    ],
}
