from registry import H

# ----------------------------------------------------------------------------- C10
_K64 = "etherparse::checksum::u64_16bit_word"
_MODEL = [
    _K64 + "::add_2bytes -> c10::m_add2, " + _K64 + "::add_4bytes -> c10::m_add4, " + _K64 + "::add_8bytes -> c10::m_add8 "
    "(reduced 16-bit one's complement models, textual copies of c09::m64_add2/4/8 which the C09 kernel lemmas "
    "c09_k64_* prove equal to the real kernels under fold)",
    _K64 + "::add_slice -> c10::m_add_slice (= left fold ref_ne, asserts len <= 40; copy of c09::m64_add_slice_q, proved "
    "by c09_slice64_lo + the kernel lemmas); only ever applied to the <= 6 byte payload here",
]
_HAVOC = _MODEL[:1] + [
    _K64 + "::add_slice -> c10::havoc_add_slice (any 16-bit value: the limit harnesses do not assert checksums and the "
    "up to 65600 byte payload must not be summed)"]
_SER = [
    "Ipv6RawExtHeader::to_bytes -> c10::m_raw_ext_to_bytes, IpAuthHeader::to_bytes -> c10::m_auth_to_bytes (models that "
    "PANIC when reached: no C10 family carries a raw extension header or an authentication header; without them CBMC "
    "explores the 2 KB / 1016-trip serialisers in every unwinding of Ipv6Extensions::write_internal and exceeds 20 GB)",
]
_PATHS = {"io": "PacketBuilderStep::write (io::Write)", "slice": "PacketBuilderStep::write_to_slice (exact-size buffer)",
          "vec": "PacketBuilderStep::write_to_vec"}
_VALS = "all addresses / ports / ttl / ids / flags values, payload 0..=6 symbolic bytes (every length, odd and even)"


def _fam(name, path, tier, unwind, steps, enc, timeout=None, extra_bounds=""):
    return H("c10_%s_%s" % (name, path), "c10", tier=tier, timeout=timeout or (900 if tier == "quick" else 1500),
             unwind=unwind, bounds="builder path %s; %s%s" % (steps, _VALS, extra_bounds),
             encodes=["PacketBuilder::" + steps, _PATHS[path], "PacketBuilderStep::size",
                      "final_write_with_net / final_size / final_write_to_slice"] + enc,
             stubs=_MODEL + _SER, stubbing=True)


_IPV4_DEC = ["Ipv4Slice::from_slice", "Ipv4HeaderSlice::*"]

ID = "C10"
PROP = {
    "max_jobs": 3,  # parallel CBMC jobs (each builder run needs 5-14 GB)
    "claim":
        "Per builder path (link x vlan x net x transport CONCRETE per harness, every value symbolic, payload 0..=6 "
        "symbolic bytes of every length): a write succeeds, emits exactly size(payload_len) bytes, and an independent "
        "reference read of the emitted bytes at the fixed offsets of the path's layout (written from IEEE 802.3/802.1Q/"
        "802.1ad, LINKTYPE_LINUX_SLL, RFC 791/8200/768/9293/792/4443/826; no code or constant shared with etherparse) "
        "finds: the supplied addresses, ports, ttl/hop limit, ids, TCP sequence/ack/window/urgent/flags/options (zero "
        "padded to a multiple of 4), ICMP type/code/bytes 5-8, VLAN ids, SLL fields, ARP fields, payload; ether types / "
        "SLL protocol type / IPv4 protocol / IPv6 next header that name the layer that really follows (0x8100 single, "
        "0x88a8 -> 0x8100 double VLAN); IPv4 total length, IPv6 payload length (extension header included) and UDP "
        "length equal to the real sizes; IPv4 header checksum, UDP (0 -> 0xffff), TCP, ICMPv4 and ICMPv6 checksums equal "
        "to the RFC 1071 reference over pseudo header || header with zero checksum field || payload, all read back "
        "from the emitted bytes. The reference pins EVERY emitted byte as a function of the harness inputs (fields the "
        "builder step does not take are the documented defaults), and each family is instantiated once per output "
        "path (write / write_to_slice with a buffer of exactly size bytes / write_to_vec), so the instantiations of a "
        "family together prove byte-identical output of the three paths. The crate's strict decoders accept the bytes "
        "layer by layer (Ethernet2Slice, SingleVlanSlice, LinuxSllSlice, Ipv4Slice incl. payload derivation, "
        "Ipv6HeaderSlice, UdpSlice, TcpSlice, Icmpv4Slice, Icmpv6Slice, ArpPacketSlice) and return the supplied values "
        "and payload. Errors: ICMPv6 behind IPv4 -> Icmpv6InIpv4 on all three paths; a slice shorter than size -> "
        "Space(size) for every shorter length; payload length limits: with the payload length symbolic over 0..=65600 "
        "the verdict flips exactly at the true maximum (65507 IPv4+UDP / IPv4+ICMPv4, 65527 IPv6+UDP), the error "
        "carries (actual, max_allowed, value_type) of the limiting field, size keeps answering, and at the maximum the "
        "emitted IPv4 total length / IPv6 payload length / UDP length are exact (no truncated field, no panic). "
        "Families decided: quick = ipv4>udp (3 paths), eth2>vlan>ipv4>tcp(+ns syn psh ack urg ece, options_raw), "
        "eth2>double_vlan>ipv4>icmpv4_echo_request, ip(Ipv4 header with every field symbolic + 4 option bytes)>raw "
        "write(last next header), eth2>arp, the error and limit harnesses; thorough = see the harness list.",
    "outside":
        "cross products not listed in the harness table (the link/VLAN section of final_write_with_net depends on the "
        "net layer only through one ether type value, the transport section only on the IP version; not decided for "
        "the unlisted combinations); payloads > 6 bytes for content/checksums (the payload is one add_slice call, "
        "structure decided by C09); limit harnesses: payload lengths > 65600 (all rejected by the same comparison), "
        "write_to_slice / write_to_vec at the limits, checksums at the limits (add_slice havocked); raw extension "
        "headers / authentication headers inside the builder (their serialisers are C08, chain bookkeeping C12: the "
        "stubs fail if reached), hence 'unreferenced extension header' errors - not reachable through the builder, "
        "which always calls set_next_headers; IPv6 families re-parse at header level (Ipv6HeaderSlice + transport "
        "slice at the reference offset), not through Ipv6Slice::from_slice, and whole-packet SlicedPacket::from_* "
        "behind a builder run exceeded 20 GB / 10 min in CBMC (these decoders are decided on arbitrary bytes by "
        "C01/C03); ARP address sizes other than 6/4; icmpv4()/icmpv6() with typed messages other than echo/raw; "
        "io::Write sinks that fail (C16); write_to_vec for the VLAN/TCP and double-VLAN/ICMPv4 families (c10_vlan_ipv4_tcp_vec, "
        "c10_qinq_ipv4_icmpv4_vec exceeded 20 GB / were killed after 500 s; write_to_vec is decided for ipv4>udp, "
        "ip(Ipv4)>raw and the ICMPv6-in-IPv4 error); the harness bodies present in kani/src/c10.rs but not listed here "
        "(IPv6+TCP via tcp_header, ICMPv4/ICMPv6 raw behind IPv6, IPv6 fragment header + UDP, ARP behind VLAN / SLL, "
        "slice/vec paths of the IPv6 families, limit_ipv6_tcp) were not run to completion within the build budget. KNOWN FINDING c10-ipv6-raw-next-header-0-unwrap: "
        "PacketBuilder::ip(IpHeaders::Ipv6(h, no extensions)).write*(.., IpNumber(0), payload) panics "
        "(Option::unwrap on None in Ipv6Extensions::write_internal) instead of writing next header 0.",
    "assumptions": [
        "reference layouts and the RFC 1071 reference sum in kani/src/c10.rs are transcribed from the standards and "
        "share no code or constant with etherparse; defaults of fields a builder step does not take are the documented "
        "ones (Ipv4Header::default(): DF set, everything else 0; VLAN PCP/DEI 0; IPv6 traffic class / flow label 0)",
        "checksum kernel models are justified by the C09 lemma harnesses (same text as c09::m64_*); C09 must hold",
        "byte identity of the three output paths is by transitivity through the reference (every byte pinned), not "
        "by a direct comparison inside one query (two builder runs in one query cost > 5 min)",
    ],
    "harnesses": [
        # ---- quick
        _fam("ipv4_udp", "io", "quick", 6, "ipv4 > udp", _IPV4_DEC + ["UdpSlice::from_slice"]),
        _fam("ipv4_udp", "slice", "quick", 6, "ipv4 > udp", _IPV4_DEC + ["UdpSlice::from_slice"]),
        _fam("ipv4_udp", "vec", "quick", 6, "ipv4 > udp", _IPV4_DEC + ["UdpSlice::from_slice"], timeout=1800),
        _fam("vlan_ipv4_tcp", "io", "quick", 42,
             "ethernet2 > single_vlan > ipv4 > tcp > ns syn psh ack urg ece > options_raw(6 bytes)",
             ["Ethernet2Slice::from_slice_without_fcs", "SingleVlanSlice::from_slice", "TcpSlice::from_slice"] + _IPV4_DEC),
        _fam("qinq_ipv4_icmpv4", "io", "quick", 6, "ethernet2 > double_vlan > ipv4 > icmpv4_echo_request",
             ["Ethernet2Slice::from_slice_without_fcs", "SingleVlanSlice::from_slice", "Icmpv4Slice::from_slice"] + _IPV4_DEC),
        _fam("ip_v4_raw", "io", "quick", 6, "ip(IpHeaders::Ipv4) > write(last_next_header)", _IPV4_DEC,
             extra_bounds="; every IPv4 header field symbolic, 4 option bytes, every last next header"),
        H("c10_arp_eth_io", "c10", tier="quick", timeout=900, unwind=10,
          bounds="builder path ethernet2 > arp; hardware/protocol type, operation, all address bytes symbolic; sizes 6/4",
          encodes=["PacketBuilder::ethernet2 > arp", _PATHS["io"], "PacketBuilderStep<ArpPacket>::size", "ArpPacket::to_bytes",
                   "ArpPacketSlice::from_slice"], stubs=_MODEL + _SER, stubbing=True),
        _fam("err_icmpv6_in_ipv4", "io", "quick", 6, "ethernet2 > ipv4 > icmpv6_raw (must fail: Icmpv6InIpv4)", []),
        H("c10_err_slice_space", "c10", tier="quick", timeout=900, unwind=6,
          bounds="ipv4 > udp, payload 0..=6 bytes, every buffer length < size(payload_len)",
          encodes=["PacketBuilderStep<UdpHeader>::write_to_slice", "final_write_to_slice"], stubs=_MODEL + _SER, stubbing=True),
        H("c10_limit_ipv4_udp", "c10", tier="quick", timeout=900, unwind=6,
          bounds="ipv4 > udp, payload length symbolic 0..=65600 (zero object, never read)",
          encodes=["PacketBuilderStep<UdpHeader>::{size,write}", "Ipv4Header::set_payload_len", "UdpHeader::calc_checksum_ipv4"],
          stubs=_HAVOC + _SER, stubbing=True),
        H("c10_limit_ipv6_udp", "c10", tier="quick", timeout=900, unwind=4,
          bounds="ipv6 > udp, payload length symbolic 0..=65600 (zero object, never read)",
          encodes=["PacketBuilderStep<UdpHeader>::{size,write}", "Ipv6Header::set_payload_length", "UdpHeader::calc_checksum_ipv6"],
          stubs=_HAVOC + _SER, stubbing=True),
        # ---- thorough: the other output paths of the quick families, further families
        _fam("vlan_ipv4_tcp", "slice", "thorough", 42,
             "ethernet2 > single_vlan > ipv4 > tcp > ns syn psh ack urg ece > options_raw(6 bytes)", _IPV4_DEC),
        _fam("qinq_ipv4_icmpv4", "slice", "thorough", 6, "ethernet2 > double_vlan > ipv4 > icmpv4_echo_request", _IPV4_DEC),
        _fam("ip_v4_raw", "slice", "thorough", 6, "ip(IpHeaders::Ipv4) > write_to_slice(last_next_header)", _IPV4_DEC),
        _fam("ip_v4_raw", "vec", "thorough", 6, "ip(IpHeaders::Ipv4) > write_to_vec(last_next_header)", _IPV4_DEC),
        _fam("err_icmpv6_in_ipv4", "slice", "thorough", 6, "ethernet2 > ipv4 > icmpv6_raw (must fail: Icmpv6InIpv4)", []),
        _fam("err_icmpv6_in_ipv4", "vec", "thorough", 6, "ethernet2 > ipv4 > icmpv6_raw (must fail: Icmpv6InIpv4)", []),
        _fam("ipv4_tcp_b", "io", "thorough", 42, "ipv4 > tcp > fin rst cwr (no options)", _IPV4_DEC + ["TcpSlice::from_slice"]),
        _fam("eth_ipv6_udp", "io", "thorough", 4, "ethernet2 > ipv6 > udp",
             ["Ethernet2Slice::from_slice_without_fcs", "Ipv6HeaderSlice::from_slice", "UdpSlice::from_slice",
              "Ipv6Extensions::{set_next_headers,header_len,write_internal}"]),
        _fam("sll_ipv6_icmpv6", "io", "thorough", 4, "linux_sll > ipv6 > icmpv6_echo_reply",
             ["LinuxSllSlice::from_slice", "Ipv6HeaderSlice::from_slice", "Icmpv6Slice::from_slice",
              "Ipv6Extensions::{set_next_headers,header_len,write_internal}"], extra_bounds="; SLL packet type 0..=7"),
        _fam("ip_v6_raw", "io", "thorough", 4, "ip(IpHeaders::Ipv6, no extensions) > write(last_next_header)",
             ["Ipv6HeaderSlice::from_slice", "Ipv6Extensions::{set_next_headers,header_len,write_internal}"],
             extra_bounds="; every IPv6 header field symbolic, every last next header (0 -> known finding)"),
        H("c10_limit_ipv4_icmpv4", "c10", tier="thorough", timeout=1500, unwind=6,
          bounds="ipv4 > icmpv4_echo_request, payload length symbolic 0..=65600 (zero object, never read)",
          encodes=["PacketBuilderStep<Icmpv4Header>::{size,write}", "Ipv4Header::set_payload_len"],
          stubs=_HAVOC + _SER, stubbing=True),
    ],
}
