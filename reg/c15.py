from registry import H

# ----------------------------------------------------------------------------- C15
_C15_CTORS = [
    ("c15_ctor_vlan_id", "VlanId::try_new / TryFrom<u16>", "all 2^16 values"),
    ("c15_ctor_vlan_pcp", "VlanPcp::try_new / TryFrom<u8>", "all 2^8 values"),
    ("c15_ctor_ip_dscp", "IpDscp::try_new / TryFrom<u8>", "all 2^8 values"),
    ("c15_ctor_ip_ecn", "IpEcn::try_new / TryFrom<u8>", "all 2^8 values"),
    ("c15_ctor_ip_frag_offset", "IpFragOffset::try_new / TryFrom<u16>", "all 2^16 values"),
    ("c15_ctor_ipv6_flow_label", "Ipv6FlowLabel::try_new / TryFrom<u32>", "all 2^32 values"),
    ("c15_ctor_macsec_an", "MacsecAn::try_new / TryFrom<u8>", "all 2^8 values"),
    ("c15_ctor_macsec_short_len", "MacsecShortLen::try_from_u8 / TryFrom<u8>", "all 2^8 values"),
    ("c15_ctor_igmp_qrv", "igmp::Qrv::try_new / TryFrom<u8>", "all 2^8 values"),
]
ID = "C15"
PROP = {
    "claim": "complete value domains (no bound beyond the type widths): checked constructors accept exactly the values "
             "that fit and report (actual, max, type) otherwise; to_bytes of each header equals the reference bit "
             "layout written from the standards, so no field can touch a neighbouring bit; decoding arbitrary bytes "
             "yields exactly the reference extraction (hence in-range values)",
    "outside": "nothing inside the listed functions; headers not listed carry no bounded bit-field type",
    "assumptions": ["reference bit layouts in kani/src/c15.rs are transcribed from IEEE 802.1Q/802.1AE, RFC 791/2474/"
                    "3168/8200/9776 and share no constant with etherparse"],
    "harnesses": [H(n, "c15", unwind=20, bounds=b, encodes=[e]) for (n, e, b) in _C15_CTORS] + [
        H("c15_frag_offset_bytes", "c15", unwind=20, bounds="all 2^13 offsets", encodes=["IpFragOffset::byte_offset"]),
        H("c15_vlan_pack", "c15", unwind=20, bounds="all field values",
          encodes=["SingleVlanHeader::to_bytes", "SingleVlanHeader::from_bytes", "SingleVlanHeaderSlice::*"]),
        H("c15_vlan_unpack", "c15", unwind=20, bounds="all 2^32 byte strings",
          encodes=["SingleVlanHeaderSlice::*", "SingleVlanHeader::from_bytes", "SingleVlanHeader::to_bytes"]),
        H("c15_ipv4_pack", "c15", unwind=20, bounds="all field values, no options",
          encodes=["Ipv4Header::to_bytes", "Ipv4HeaderSlice::{dcp,ecn,dont_fragment,more_fragments,fragments_offset,..}"]),
        H("c15_ipv4_unpack", "c15", unwind=20, bounds="all 20-byte headers with IHL 5",
          encodes=["Ipv4HeaderSlice::from_slice", "Ipv4HeaderSlice::to_header"]),
        H("c15_ipv6_pack", "c15", unwind=20, bounds="all field values",
          encodes=["Ipv6Header::to_bytes", "Ipv6HeaderSlice::{traffic_class,flow_label,dscp,ecn,..}", "Ipv6Header::{dscp,ecn}"]),
        H("c15_ipv6_unpack", "c15", unwind=20, bounds="all values of the first 8 bytes",
          encodes=["Ipv6HeaderSlice::from_slice", "Ipv6HeaderSlice::to_header"]),
        H("c15_ipv6_set_dscp_ecn", "c15", unwind=20, bounds="all values", encodes=["Ipv6Header::set_dscp", "Ipv6Header::set_ecn"]),
        H("c15_ipv6_frag_pack", "c15", unwind=20, bounds="all field values",
          encodes=["Ipv6FragmentHeader::to_bytes", "Ipv6FragmentHeaderSlice::*"]),
        H("c15_ipv6_frag_unpack", "c15", unwind=20, bounds="all 2^64 byte strings",
          encodes=["Ipv6FragmentHeaderSlice::*", "Ipv6FragmentHeader::is_fragmenting_payload"]),
        H("c15_macsec_pack", "c15", unwind=20, bounds="all field values, all 4 payload types, with/without SCI",
          encodes=["MacsecHeader::to_bytes", "MacsecHeader::header_len"]),
        H("c15_macsec_unpack", "c15", unwind=20, bounds="all 16-byte strings",
          encodes=["MacsecHeaderSlice::from_slice", "MacsecHeaderSlice::*", "MacsecHeaderSlice::to_header"]),
        H("c15_igmp_query_bits", "c15", unwind=20, bounds="all values of byte 8 and of every setter argument",
          encodes=["MembershipQueryWithSourcesHeader::{flags,set_flags,s_flag,set_s_flag,qrv,set_qrv}"]),
    ],
}


