from registry import H

# ----------------------------------------------------------------------------- C16
# (name, tier, timeout s, unwind, bounds, real functions entered)
_K = "fault position k = 0..=encoded_len (every byte, incl. no fault); "
_C16 = [
    # ---- write into a writer that fails after k bytes: single part serialisers
    ("c16_w_eth2", "quick", 300, 16, _K + "all field values; 14 bytes", ["Ethernet2Header::{write,header_len}"]),
    ("c16_w_vlan", "quick", 300, 6, _K + "all field values; 4 bytes", ["SingleVlanHeader::{write,header_len}"]),
    ("c16_w_sll", "quick", 300, 18, _K + "all well formed values (packet type 0..=7, 5 supported ARPHRD); 16 bytes",
     ["LinuxSllHeader::{write,header_len}"]),
    ("c16_w_macsec", "quick", 300, 18, _K + "all field values, 4 payload types x with/without SCI (6/8/14/16 bytes)",
     ["MacsecHeader::{write,header_len}"]),
    ("c16_w_link_header", "quick", 300, 18, _K + "both variants, all field values", ["LinkHeader::{write,header_len}"]),
    ("c16_w_ipv6", "quick", 300, 42, _K + "all field values; 40 bytes", ["Ipv6Header::{write,header_len}"]),
    ("c16_w_ipv6_frag", "quick", 300, 10, _K + "all field values; 8 bytes", ["Ipv6FragmentHeader::{write,header_len}"]),
    ("c16_w_udp", "quick", 300, 10, _K + "all field values; 8 bytes", ["UdpHeader::{write,header_len}"]),
    ("c16_w_udp_std_loop", "thorough", 600, 10,
     _K + "all field values; the writer double only implements write() (short write, then error): std's default write_all loop",
     ["UdpHeader::write", "std::io::Write::write_all (default)"]),
    ("c16_w_arp_6_4", "quick", 600, 30, _K + "address sizes (6,4), all types / operations / address bytes; 28 bytes",
     ["ArpPacket::{write,packet_len,to_bytes}"]),
    ("c16_w_icmpv4", "thorough", 600, 22, _K + "every value the decoder produces from 20 arbitrary bytes (all variants; 8 and 20 byte headers)",
     ["Icmpv4Header::{write,header_len,to_bytes}"]),
    ("c16_w_icmpv6", "thorough", 600, 10, _K + "every value the decoder produces from 8 arbitrary bytes (all variants)",
     ["Icmpv6Header::{write,header_len,to_bytes}"]),
    # ---- multi part serialisers
    ("c16_w_ipv4_opt0", "quick", 300, 30, _K + "all field values, no options; write and write_raw", ["Ipv4Header::{write,write_raw,header_len}"]),
    ("c16_w_ipv4_opt4", "quick", 600, 30, _K + "all field values, 4 option bytes; write and write_raw (fault in header, between, in options)",
     ["Ipv4Header::{write,write_raw,header_len}"]),
    ("c16_w_ipv4_opt8", "thorough", 600, 30, _K + "all field values, 8 option bytes; write and write_raw", ["Ipv4Header::{write,write_raw,header_len}"]),
    ("c16_w_tcp", "quick", 600, 30, _K + "all field values, options 0/4/8 bytes", ["TcpHeader::{write,header_len}"]),
    ("c16_w_auth", "quick", 600, 22, _K + "all field values, ICV 0/4/8 bytes", ["IpAuthHeader::{write,header_len}"]),
    ("c16_w_raw_ext_8", "thorough", 900, 18, _K + "payload 6 bytes (after having held 14)", ["Ipv6RawExtHeader::{write,header_len}"]),
    ("c16_w_raw_ext_16", "quick", 900, 18, _K + "payload 14 bytes", ["Ipv6RawExtHeader::{write,header_len}"]),
    ("c16_w_transport_header", "thorough", 900, 26, _K + "all 4 variants (UDP, TCP with 0/4 option bytes, ICMPv4, ICMPv6), all field values",
     ["TransportHeader::{write,header_len}"]),
    ("c16_w_ip_headers_v4_opt0", "quick", 900, 30, _K + "IPv4 variant, no options, no extension header", ["IpHeaders::{write,header_len}", "Ipv4Extensions::write"]),
    ("c16_w_ipv6_exts_frag", "quick", 300, 10, _K + "chain fragment -> UDP", ["Ipv6Extensions::{write,set_next_headers,header_len}"]),
    ("c16_w_ipv6_exts_hbh_frag", "quick", 900, 18, _K + "chain hop-by-hop(8) -> fragment -> UDP", ["Ipv6Extensions::{write,set_next_headers,header_len}"]),
    ("c16_w_ipv6_exts_route_fdest", "thorough", 900, 18, _K + "chain routing(8) -> final destination options(8) -> UDP",
     ["Ipv6Extensions::{write,set_next_headers,header_len}"]),
    # ---- read from a reader that fails after k bytes
    ("c16_r_eth2", "quick", 300, 16, _K + "reader holds the encoding of any value", ["Ethernet2Header::{read,write}"]),
    ("c16_r_vlan", "quick", 300, 6, _K + "reader holds the encoding of any value", ["SingleVlanHeader::{read,write}"]),
    ("c16_r_sll", "quick", 300, 18, _K + "reader holds the encoding of any well formed value", ["LinuxSllHeader::{read,write}"]),
    ("c16_r_macsec", "quick", 600, 18, _K + "all 4 layouts (6/8/14/16 bytes; two reads)", ["MacsecHeader::{read,write}"]),
    ("c16_r_arp_6_4", "thorough", 900, 30, _K + "address sizes (6,4) (five reads)", ["ArpPacket::{read,write}"]),
    ("c16_r_ipv4_opt0", "quick", 600, 30, _K + "no options (two reads)", ["Ipv4Header::{read,read_without_version,write_raw}"]),
    ("c16_r_ipv4_opt8", "quick", 600, 30, _K + "8 option bytes (three reads)", ["Ipv4Header::{read,read_without_version,write_raw}"]),
    ("c16_r_ipv6", "quick", 300, 42, _K + "all field values (two reads)", ["Ipv6Header::{read,read_without_version,write}"]),
    ("c16_r_ipv6_frag", "quick", 300, 10, _K + "all field values", ["Ipv6FragmentHeader::{read,write}"]),
    ("c16_r_raw_ext_16", "thorough", 900, 18, _K + "payload 14 bytes (two reads)", ["Ipv6RawExtHeader::{read,write}"]),
    ("c16_r_auth", "quick", 600, 22, _K + "ICV 0/4/8 bytes (two reads)", ["IpAuthHeader::{read,write}"]),
    ("c16_r_ipv4_exts_auth", "thorough", 600, 18, _K + "start number 51, authentication header with 4 byte ICV", ["Ipv4Extensions::read", "IpAuthHeader::read"]),
    ("c16_r_udp", "quick", 300, 10, _K + "all field values", ["UdpHeader::{read,write}"]),
    ("c16_r_tcp", "quick", 600, 30, _K + "options 0/4/8 bytes (two reads)", ["TcpHeader::{read,write}"]),
    ("c16_r_icmpv4", "thorough", 600, 22, _K + "all variants, 8 and 20 byte headers (two reads)", ["Icmpv4Header::{read,write}"]),
    ("c16_r_icmpv6", "thorough", 600, 10, _K + "all variants", ["Icmpv6Header::{read,write}"]),
    # ---- LimitedReader
    ("c16_limited_reader", "quick", 300, 8,
     "any limit (full usize), inner reader with 12 bytes failing after k = 0..=12, <= 3 read_exact calls of sizes 0..=5, "
     "optional start_layer before each call",
     ["io::LimitedReader::{new,read_exact,start_layer,take_reader}"]),
    ("c16_rl_ipv6_frag", "quick", 600, 10, "limit 0..=len+1 x fault position 0..=len", ["Ipv6FragmentHeader::read_limited", "io::LimitedReader::*"]),
    ("c16_rl_raw_ext_16", "thorough", 900, 18, "limit 0..=len+1 x fault position 0..=len, payload 14 bytes", ["Ipv6RawExtHeader::read_limited", "io::LimitedReader::*"]),
    ("c16_rl_auth", "thorough", 900, 22, "limit 0..=len+1 x fault position 0..=len, ICV 0/4/8 bytes", ["IpAuthHeader::read_limited", "io::LimitedReader::*"]),
    # ---- write_to_slice
    ("c16_slice_eth2", "quick", 300, 18, "slice length 0..=15 in an object of exactly that size, all field values",
     ["Ethernet2Header::write_to_slice"]),
    ("c16_slice_sll", "quick", 300, 20, "slice length 0..=17 in an object of exactly that size, all well formed values",
     ["LinuxSllHeader::write_to_slice"]),
    ("c16_slice_eth2_embedded", "quick", 300, 34, "slice length 0..=15 at offset 0..=8 inside 32 canary bytes", ["Ethernet2Header::write_to_slice"]),
    # ---- PacketBuilder
    ("c16_b_write_eth_v4_udp_3", "thorough", 2400, 48,
     "Ethernet II + IPv4 + UDP, payload 3 bytes, all addresses/ports/ttl/payload bytes; fault position 0..=45",
     ["PacketBuilderStep<UdpHeader>::write", "final_write_with_net", "IoWriter"]),
    ("c16_b_slice_eth_v4_udp_3", "thorough", 2400, 48,
     "Ethernet II + IPv4 + UDP, payload 3 bytes; slice length 0..=46 in an object of exactly that size",
     ["PacketBuilderStep<UdpHeader>::{write_to_slice,size}", "final_write_to_slice", "SliceCoreWrite"]),
]

def _shared():
    # the builder's space error for EVERY too-short output slice is decided by a C10 harness (one builder run, checksum
    # kernels stubbed as justified by C09); it runs in C16's quick tier as well: seeded change C16_A (required length
    # reported too small for very short slices) is otherwise only seen by C16's thorough builder harnesses
    try:
        from reg import c10
        return [h for h in c10.PROP["harnesses"] if h["name"] == "c10_err_slice_space"]
    except Exception:
        return []


ID = "C16"
PROP = {
    "max_jobs": 8,  # parallel CBMC jobs (memory profile of these harnesses)
    "claim": "for every value inside the bound and EVERY fault position k in 0..=encoded_len: `write` into a std::io::Write that "
             "accepts exactly k bytes (short write, then one error) returns Err carrying that writer's error - never Ok, never "
             "a panic - exactly k bytes reached the writer, they equal the first k bytes of the fault-free encoding (produced "
             "in the same harness by the same function into a writer that never fails), and nothing is offered to the writer "
             "after the fault; with k == encoded_len the result is Ok and the announced header_len() bytes arrived. `read` "
             "from a reader that holds the encoding of a well formed value and fails after k bytes returns Err carrying the "
             "reader's error for every k < encoded_len (not Ok, not a content error, no panic, no read after the fault) and "
             "Ok having consumed exactly encoded_len bytes for k == encoded_len. write_to_slice (Ethernet II, Linux SLL, "
             "builder): for every slice length 0..=required+1, the slice being a heap object of exactly that size, success "
             "iff the slice is long enough; on success the encoding sits at the start, the returned rest / count is exact and "
             "every byte behind is untouched; on failure SliceWriteSpaceError {required_len = real encoded length, len = slice "
             "length, layer, offset 0} / BuildSliceWriteError::Space(real packet size) and the slice content is a written "
             "prefix of the encoding followed by untouched bytes; no access outside the object (CBMC pointer checks) and, in "
             "the embedded twin, no change of the 32 surrounding canary bytes. LimitedReader: for any limit (full usize), an "
             "inner reader that fails after k <= 12 bytes and every sequence of <= 3 read_exact calls of sizes 0..=5 with "
             "optional start_layer calls, the inner reader never delivers more than the limit, a request over the remaining "
             "budget is a LenError (required_len = bytes of the layer + request, len = budget of the layer) raised before "
             "anything is pulled, every other call is the inner reader's result; read_limited of fragment / raw extension / "
             "authentication header under limit x fault: Ok iff both allow the whole header, limit not binding -> the reader's "
             "error, no fault -> length error, never more than the limit pulled. Types: Ethernet2, SingleVlan, LinuxSll, "
             "Macsec (4 layouts), LinkHeader, ARP (6,4), Ipv4Header (0/4/8 option bytes, write + write_raw), Ipv6Header, "
             "Ipv6FragmentHeader, Ipv6RawExtHeader (8/16 bytes), IpAuthHeader (ICV 0/4/8), UDP, TCP (options 0/4/8), ICMPv4 and "
             "ICMPv6 (all variants), TransportHeader (4 variants), IpHeaders::write (IPv4 variant, no options, no extension), "
             "Ipv6Extensions::write chains fragment / hop-by-hop+fragment / routing+final destination options, "
             "Ipv4Extensions::read with AH, PacketBuilder Ethernet II + IPv4 + UDP with a 3 byte payload (write: fault at every "
             "byte 0..=45; write_to_slice: slice length 0..=46).",
    "outside": "larger variable parts (IPv4/TCP options > 8 bytes, ICV > 8 bytes, raw extension payload > 14 bytes, ARP address "
               "sizes other than (6,4)); builder payload lengths other than 3 bytes and other builder stackings (VLAN, IPv6, SLL, "
               "ARP, TCP, ICMP) - the builder moves a > 10 KB state by value, one stacking with two runs needs ~14 GB / 20 min, a "
               "symbolic payload length exceeds 20 GB (measured). NOT decided because CBMC exceeded 20 GB or 15-25 min on the "
               "shared machine (each measured here or in C08): Ipv4Extensions::write / Ipv6Extensions::write / IpHeaders::write "
               "WITH an authentication header (IpAuthHeader::to_bytes has a fixed 1016 trip loop), Ipv6Extensions::write chains "
               "with three or more members, IpHeaders::write with IPv4 options or the IPv6 variant, IpHeaders::read, "
               "Ipv6Extensions::read (even for the single fragment chain), Ipv4Extensions::read_limited / "
               "Ipv6Extensions::read_limited (their members' read_limited are decided). Not covered: Icmpv6Payload::write, "
               "PacketBuilder::write_to_vec (infallible). DoubleVlanHeader and IgmpHeader have no write/read in this tree. "
               "Writers/readers that lie about counts, ErrorKind::Interrupted retry loops of std (one harness runs std's "
               "default write_all loop over write(); all others use the double's loop-free write_all/read_exact with the same "
               "observable behaviour), a second fault after the first one, flush errors.",
    "assumptions": [
        "test doubles in kani/src/c16.rs follow the documented std::io::{Read,Write} contract: FailAt accepts exactly k bytes "
        "(partial acceptance of the write that crosses k), reports the fault once with a concrete ErrorKind and records any "
        "later call; FailRd likewise for reads; their write_all/read_exact overrides are the loop-free equivalent of std's "
        "default loops (cross-checked by c16_w_udp_std_loop)",
        "value sets are the acceptance sets of the documented constructors as in C08 (bounded newtypes via try_new, option "
        "lengths multiple of 4, ICV multiple of 4, raw extension payload = 6 mod 8); ICMP values are the image of the decoder",
        "the fault-free encoding used as oracle is produced by the function under test itself with a non-failing writer; that "
        "it is the right encoding is C08's subject",
        "io::Error values are inspected with kind() and then forgotten (never dropped) to keep symbolic execution tractable",
    ],
    "harnesses": [H(n, "c16", tier=t, timeout=to, unwind=u, bounds=b, encodes=e) for (n, t, to, u, b, e) in _C16] + _shared(),
}
