from registry import H

# ----------------------------------------------------------------------------- SELFTEST (driver only)
ID = "SELFTEST"
PROP = {
    "claim": "must-fail harnesses; exercises counterexample extraction and native replay",
    "harnesses": [
        H("selftest_fail_assert", "selftest", unwind=10),
        H("selftest_fail_oob", "selftest", unwind=10),
    ],
}

