from registry import H

# ----------------------------------------------------------------------------- C09
_K64 = "etherparse::checksum::u64_16bit_word"
_K32 = "etherparse::checksum::u32_16bit_word"
_MODEL = [
    _K64 + "::add_2bytes -> c09::m64_add2 (reduced 16-bit one's complement model, proved by c09_k64_add2)",
    _K64 + "::add_4bytes -> c09::m64_add4 (proved by c09_k64_add4_widen + c09_k64_limb0/1 + c09_k64_split8 + c09_k64_words_and_reduced)",
    _K64 + "::add_8bytes -> c09::m64_add8 (proved by c09_k64_limb0..3 + c09_k64_split8 + c09_k64_words_and_reduced)",
    _K64 + "::add_slice -> c09::m64_add_slice (= left fold ref_ne, asserted len <= 64; proved by c09_slice64_lo + c09_slice64_hi + the kernel lemmas)",
]
_GHOST64 = [_K64 + "::{add_2bytes,add_4bytes,add_8bytes} -> uninterpreted functions with a ghost call log "
            "(over-approximation of the real kernels: any result value)"]
_GHOST32 = [_K32 + "::{add_2bytes,add_4bytes} -> uninterpreted functions with a ghost call log "
            "(over-approximation of the real kernels: any result value)"]


def _l1(name, enc, bounds, timeout=900):
    # stubbing=True only so that the whole property runs in ONE cargo-kani invocation; no stub is applied
    return H(name, "c09", tier="quick", timeout=timeout, unwind=2, bounds=bounds, encodes=enc, stubbing=True)


def _l4(name, tier, unwind, bounds, enc, timeout=1500):
    # quick-tier compositions use the add_slice model that asserts len <= 40 (= what c09_slice64_lo proves)
    stubs = _MODEL if tier != "quick" else _MODEL[:3] + [
        _K64 + "::add_slice -> c09::m64_add_slice_q (= left fold ref_ne, asserted len <= 40; proved by c09_slice64_lo "
               "+ the kernel lemmas)"]
    return H(name, "c09", tier=tier, timeout=timeout, unwind=unwind, bounds=bounds, encodes=enc,
             stubs=stubs, stubbing=True)


_PAY = "all header field values and addresses, payload <= 8 symbolic bytes (every length, odd and even)"

ID = "C09"
PROP = {
    "claim":
        "Layered, every layer decided by CBMC on the real code, glue = substitution and induction over the call "
        "sequence (written out here because no single query states it). Notation: oadd = 16-bit end-around-carry "
        "add; fold(a) := !ones_complement(a) (the REAL function, so 'result == !fold(acc)' is a tautology); "
        "ref_ne(r, s) = left fold of oadd from r over the native-endian 16-bit words of s, odd length padded with "
        "one zero byte; ref_checksum(s) = the bytes of !ref_ne(0, s) read as a big-endian field; rfc1071 = the C "
        "routine of RFC 1071 4.1 transcribed (32-bit deferred carries over big-endian words). "
        "(1) KERNELS, full accumulator width, ALL 2^64 (2^32) accumulator values and all data bytes, no stub: "
        "fold(add_2bytes(a,v)) == oadd(fold a, word v) [k64_add2, k32_add2]; per 16-bit limb i: "
        "fold(eac(a, w<<16i)) == oadd(fold a, w) where eac is the real add_8bytes (add_4bytes for u32) "
        "[k64_limb0..3, k32_limb0..1]; eac(a, b) == eac applied limb by limb [k64_split8, k32_split4]; add_4bytes "
        "(u64) == add_8bytes of the zero extended value [k64_add4_widen]; limbs == the native-endian words in byte "
        "order, fold(r) == r and oadd(r,0) == r for reduced r, fold(0) == 0 [k64_words_and_reduced]. Hence for "
        "every kernel K of either module: fold(K(a, bytes)) == ref_ne(fold a, bytes); no overflow panic in any "
        "kernel; ones_complement_with_no_zero is never 0 and equals ones_complement unless that is 0, where it is "
        "0xffff [k_no_zero]. "
        "(2) add_slice STRUCTURE, both modules, every length <= 64 (all 8/4/2/1-byte tail combinations), all bytes, "
        "every accumulator: with the kernels replaced by uninterpreted functions (fresh value per call, ghost log) "
        "the real loop threads the accumulator from the start value to the returned value through calls that "
        "consume the slice front to back in consecutive 8/4/2-byte chunks at even offsets, only the last byte of an "
        "odd slice padded with exactly one zero, every byte once, every get_unchecked inside an object of exactly "
        "len bytes [slice64_lo/hi, slice32_lo/hi; the quick tier proves lengths 0..=40 and its compositions use a model that asserts len <= 40, lengths 41..=64 are proved in the thorough tier together with the compositions that need them]; the same holds for two successive add_slice calls on the two parts of a "
        "string cut at ANY even offset (length <= 24) [split64] - split independence, and by induction any number "
        "of even cuts. (1)+(2) by induction over the logged calls: fold(add_slice(a, s)) == ref_ne(fold a, s) for "
        "u32 and u64 alike, so both accumulator widths return the same 16-bit value. Sum16BitWords forwards to "
        "these functions [sum16_api]. "
        "(3) REFERENCE: swap(oadd(x,y)) == oadd(swap x, swap y), oadd commutative/associative/neutral 0, "
        "rfc_fold(acc + w) == oadd(rfc_fold acc, w) for all values [ref_step_lemmas]; by induction over the words "
        "ref_checksum(s) == rfc1071(s) for every message shorter than 2^16 words; checked directly for len <= 16 "
        "[ref_matches_rfc1071] and, with real kernels and real add_slice and no stub at all, for len <= 8 "
        "[e2e_small]. "
        "(4) PROTOCOLS: kernels and add_slice replaced by the models justified in (1),(2) (models assert that the "
        "accumulator is reduced and the slice <= 64 bytes; the control flow of the crate never depends on an "
        "accumulator, so the run with models from fold(a) performs the same calls as the real run from a and "
        "fold(real state) == model state throughout; ones_complement is real code in both). For all field values, "
        "addresses, option lengths and every payload of 0..8 bytes the returned / filled-in checksum equals "
        "ref_checksum over ONE byte string written from the RFCs: pseudo header (RFC 768 / 9293 for IPv4: src, "
        "dst, 0, protocol, 16-bit length; RFC 8200 8.1 for IPv6: src, dst, 32-bit upper-layer length, 3 zero "
        "bytes, next header) || header with zero checksum field || payload; UDP: 0 is replaced by 0xffff and the "
        "result is never 0; Icmpv6Slice::is_checksum_valid == (complete sum incl. the stored checksum folds to "
        "0xffff); for ICMPv4/ICMPv6/IGMP every enum variant is enumerated and the crate's to_bytes() with zero "
        "checksum is asserted equal to the RFC header the oracle summed; TransportHeader::update_checksum_ipv4/6 "
        "dispatch every variant to the right sum and leave all other fields untouched (ICMPv6 in IPv4 -> the "
        "documented Icmpv6InIpv4 error, header unchanged).",
    "outside":
        "add_slice loop structure for slices longer than 64 bytes (the loop body is uniform in the length; not "
        "proved); payloads longer than 8 bytes in the protocol compositions (the payload is one add_slice call, "
        "covered structurally by (2) up to 64 bytes); split independence harness up to 24 bytes; 16/32-bit and "
        "big-endian TARGETS (u32 module is proved as a library on this 64-bit little-endian target, the protocol "
        "code is only compiled against the u64 module here); payload-too-long errors (C14); PacketBuilder beyond "
        "IPv4+UDP (the builder calls exactly calc_header_checksum and TransportHeader::update_checksum_ipv4/6, "
        "which are covered; whole-builder output is C10; an IPv6+TCP builder harness needed > 40 GB and was "
        "dropped); which address belongs into the IPv6 pseudo header when a routing header is present (the "
        "functions take the addresses as arguments or from the Ipv6Header given to them - the harnesses use "
        "exactly those); messages of 2^16 words or more in the reference induction; memory alignment of the "
        "input is not a variable: add_slice reads byte by byte through get_unchecked(i) (no word loads), the "
        "harness object has alignment 1, sub-slices at every even offset are covered by split64.",
    "assumptions": [
        "reference checksum and all wire layouts in kani/src/c09.rs are transcribed from RFC 1071, 791, 768, 9293, "
        "3540, 8200, 792, 1191, 4443, 4861, 1112, 2236, 3376, 9776 and share no code or constant with etherparse",
        "composition of the four layers is by substitution/induction on paper (stated in the claim), each premise "
        "is a solver-decided harness of this property and runs in the same command",
        "uninterpreted-kernel argument of layer 2: add_slice's control flow does not inspect kernel results "
        "(visible in the source: results only flow into `sum`)",
    ],
    "harnesses": [
        # ---- layer 1 (no stubs)
        _l1("c09_k64_add2", [_K64 + "::add_2bytes", _K64 + "::ones_complement"], "all 2^64 accumulators x 2^16 words"),
        _l1("c09_k64_limb0", [_K64 + "::add_8bytes", _K64 + "::ones_complement"], "all 2^64 accumulators x 2^16 words, limb 0"),
        _l1("c09_k64_limb1", [_K64 + "::add_8bytes", _K64 + "::ones_complement"], "all 2^64 accumulators x 2^16 words, limb 1"),
        _l1("c09_k64_limb2", [_K64 + "::add_8bytes", _K64 + "::ones_complement"], "all 2^64 accumulators x 2^16 words, limb 2"),
        _l1("c09_k64_limb3", [_K64 + "::add_8bytes", _K64 + "::ones_complement"], "all 2^64 accumulators x 2^16 words, limb 3"),
        _l1("c09_k64_split8", [_K64 + "::add_8bytes"], "all 2^64 accumulators x 2^64 data values"),
        _l1("c09_k64_add4_widen", [_K64 + "::add_4bytes", _K64 + "::add_8bytes"], "all 2^64 accumulators x 2^32 data values"),
        _l1("c09_k64_words_and_reduced", [_K64 + "::ones_complement", _K32 + "::ones_complement"],
            "all 8-byte strings; all 2^16 reduced accumulators"),
        _l1("c09_k_no_zero", [_K64 + "::ones_complement_with_no_zero", _K32 + "::ones_complement_with_no_zero",
                              _K64 + "::ones_complement", _K32 + "::ones_complement"], "all 2^64 / 2^32 accumulators"),
        _l1("c09_k32_add2", [_K32 + "::add_2bytes", _K32 + "::ones_complement"], "all 2^32 accumulators x 2^16 words"),
        _l1("c09_k32_limb0", [_K32 + "::add_4bytes", _K32 + "::ones_complement"], "all 2^32 accumulators x 2^16 words, limb 0"),
        _l1("c09_k32_limb1", [_K32 + "::add_4bytes", _K32 + "::ones_complement"], "all 2^32 accumulators x 2^16 words, limb 1"),
        _l1("c09_k32_split4", [_K32 + "::add_4bytes"], "all 2^32 accumulators x 2^32 data values"),
        # ---- layer 2 (uninterpreted kernels)
    ] + [
        H("c09_slice%s_%s" % (w, part), "c09", tier=tier, timeout=to, unwind=unw,
          bounds="every slice length %s (case split in the harness), all bytes, all 2^%s start values; "
                 "exact-size heap object" % (rng, w),
          encodes=["etherparse::checksum::u%s_16bit_word::add_slice" % w], stubs=g, stubbing=True)
        for (w, g) in (("64", _GHOST64), ("32", _GHOST32))
        for (part, rng, tier, to, unw) in (("lo", "0..=40", "quick", 900, 43), ("hi", "41..=64", "thorough", 1500, 27))
    ] + [
        H("c09_split64", "c09", tier="thorough", timeout=1500, unwind=27,
          bounds="every length 0..=24 x every even cut 0..=len, all bytes, all 2^64 start values",
          encodes=[_K64 + "::add_slice (two successive calls)"], stubs=_GHOST64, stubbing=True),
        # ---- Sum16BitWords wrapper, layer 3
        H("c09_sum16_api", "c09", tier="quick", timeout=900, unwind=8,
          bounds="all arguments of one call of each method, slice <= 9 bytes",
          encodes=["Sum16BitWords::{new,default,add_2bytes,add_4bytes,add_8bytes,add_16bytes,add_slice,"
                   "ones_complement,to_ones_complement_with_no_zero}", _K64 + "::*"], stubbing=True),
        H("c09_ref_step_lemmas", "c09", tier="quick", timeout=900, unwind=4,
          bounds="all 16-bit operands, all 32-bit deferred sums that cannot overflow", encodes=["(reference only)"],
          stubbing=True),
        H("c09_ref_matches_rfc1071", "c09", tier="quick", timeout=900, unwind=10,
          bounds="all byte strings of length 0..=16", encodes=["(reference only)"], stubbing=True),
        H("c09_ref_split", "c09", tier="thorough", timeout=1500, unwind=14,
          bounds="all byte strings of length 0..=24, every even cut, all reduced start values",
          encodes=["(reference only)"], stubbing=True),
        H("c09_e2e_small", "c09", tier="thorough", timeout=1500, unwind=8,
          bounds="all byte strings of length 0..=8 (includes the 8-byte kernel), no stub at all",
          encodes=["Sum16BitWords::{new,add_slice,ones_complement}", _K64 + "::{add_slice,add_4bytes,add_2bytes}",
                   _K32 + "::{add_slice,add_4bytes,add_2bytes,ones_complement}"], stubbing=True),
        # ---- layer 4, quick: IPv4 / UDP / TCP from header structs
        _l4("c09_ipv4_header", "quick", 32, "all field values, options 0..=40 bytes (every multiple of 4)",
            ["Ipv4Header::calc_header_checksum", "Ipv4Options::try_from"], timeout=900),
        _l4("c09_udp_ipv4", "quick", 30, _PAY + "; arbitrary length field for calc_*",
            ["UdpHeader::with_ipv4_checksum", "UdpHeader::calc_checksum_ipv4", "UdpHeader::calc_checksum_ipv4_raw"],
            timeout=900),
        _l4("c09_udp_ipv6", "quick", 30, _PAY + "; arbitrary length field for calc_*",
            ["UdpHeader::with_ipv6_checksum", "UdpHeader::calc_checksum_ipv6", "UdpHeader::calc_checksum_ipv6_raw"],
            timeout=900),
        _l4("c09_tcp_ipv4", "quick", 56, _PAY + "; options 0..=40 bytes (every length, zero padded by the crate)",
            ["TcpHeader::calc_checksum_ipv4", "TcpHeader::calc_checksum_ipv4_raw", "TcpOptions::try_from_slice"],
            timeout=900),
        _l4("c09_tcp_ipv6", "quick", 56, _PAY + "; options 0..=40 bytes (every length, zero padded by the crate)",
            ["TcpHeader::calc_checksum_ipv6", "TcpHeader::calc_checksum_ipv6_raw", "TcpOptions::try_from_slice"],
            timeout=900),
        # ---- layer 4, thorough
        _l4("c09_ipv4_write", "thorough", 32, "all field values, options 0..=40 bytes",
            ["Ipv4Header::write (fills in the checksum)", "Ipv4Header::calc_header_checksum"]),
        _l4("c09_tcp_header_slice_ipv4", "thorough", 70, "all raw headers with data offset 5..=15, payload <= 8 bytes",
            ["TcpHeaderSlice::from_slice", "TcpHeaderSlice::calc_checksum_ipv4", "TcpHeaderSlice::calc_checksum_ipv4_raw",
             "Ipv4HeaderSlice::{source,destination}"]),
        _l4("c09_tcp_header_slice_ipv6", "thorough", 70, "all raw headers with data offset 5..=15, payload <= 8 bytes",
            ["TcpHeaderSlice::from_slice", "TcpHeaderSlice::calc_checksum_ipv6", "TcpHeaderSlice::calc_checksum_ipv6_raw",
             "Ipv6HeaderSlice::{source,destination}"]),
        _l4("c09_tcp_slice_ipv4", "thorough", 70, "all raw segments: data offset 5..=15, payload <= 8 bytes",
            ["TcpSlice::from_slice", "TcpSlice::calc_checksum_ipv4"]),
        _l4("c09_tcp_slice_ipv6", "thorough", 70, "all raw segments: data offset 5..=15, payload <= 8 bytes",
            ["TcpSlice::from_slice", "TcpSlice::calc_checksum_ipv6"]),
        _l4("c09_icmpv4", "thorough", 30, "every Icmpv4Type variant and sub-code with symbolic content; " + _PAY,
            ["Icmpv4Type::calc_checksum", "Icmpv4Header::with_checksum", "Icmpv4Header::update_checksum",
             "Icmpv4Header::to_bytes", "Icmpv4Type::header_len"]),
        _l4("c09_icmpv6", "thorough", 36, "every Icmpv6Type variant and code with symbolic content; " + _PAY,
            ["Icmpv6Type::calc_checksum", "Icmpv6Type::to_header", "Icmpv6Header::with_checksum",
             "Icmpv6Header::update_checksum", "Icmpv6Header::to_bytes"]),
        _l4("c09_icmpv6_valid", "thorough", 30, "all raw ICMPv6 messages of 8..=16 bytes, all address pairs",
            ["Icmpv6Slice::from_slice", "Icmpv6Slice::is_checksum_valid"]),
        _l4("c09_igmp", "thorough", 30, "every IgmpType variant with symbolic content; " + _PAY,
            ["IgmpHeader::calc_checksum", "IgmpHeader::with_checksum", "IgmpHeader::to_bytes", "IgmpHeader::header_len"]),
        _l4("c09_transport_ipv4_udp_icmp", "thorough", 30, "Udp / Icmpv4 (all variants) / Icmpv6 (all variants); " + _PAY,
            ["TransportHeader::update_checksum_ipv4"]),
        _l4("c09_transport_ipv4_tcp", "thorough", 56, "Tcp with options 0..=40 bytes; " + _PAY,
            ["TransportHeader::update_checksum_ipv4"]),
        _l4("c09_transport_ipv6_udp_icmp", "thorough", 36, "Udp / Icmpv4 (all variants) / Icmpv6 (all variants); " + _PAY,
            ["TransportHeader::update_checksum_ipv6"]),
        _l4("c09_transport_ipv6_tcp", "thorough", 56, "Tcp with options 0..=40 bytes; " + _PAY,
            ["TransportHeader::update_checksum_ipv6"]),
        _l4("c09_builder_ipv4_udp", "thorough", 30, "all addresses, ports, ttl; payload <= 8 bytes",
            ["PacketBuilder::ipv4", "PacketBuilderStep::udp", "PacketBuilderStep<UdpHeader>::write"]),
    ],
}
