from registry import H

# ----------------------------------------------------------------------------- C08
# (name, tier, timeout s, unwind, bounds, real functions entered)
_V = "value -> bytes -> value: "
_B = "bytes -> value -> bytes -> value: "
_C08 = [
    # ---- link layer
    ("c08_eth2_value", "quick", 300, 20, "all field values",
     ["Ethernet2Header::{to_bytes,write,write_to_slice,header_len,from_slice,from_bytes,read}"]),
    ("c08_eth2_bytes", "quick", 300, 20, "all byte strings of length <= 18",
     ["Ethernet2Header::{from_slice,to_bytes}"]),
    ("c08_sll_value", "quick", 300, 20,
     "all packet types 0..=7, the 5 supported ARPHRD values, every protocol value (typed LinuxNonstandardEtherType "
     "wherever one exists), all address bytes/lengths",
     ["LinuxSllHeader::{to_bytes,write,write_to_slice,header_len,from_slice,from_bytes,read}"]),
    ("c08_sll_bytes", "quick", 300, 20, "all byte strings of length <= 20",
     ["LinuxSllHeader::{from_slice,to_bytes}", "LinuxSllHeaderSlice::{from_slice,to_header}"]),
    ("c08_vlan_value", "quick", 300, 10, "all field values",
     ["SingleVlanHeader::{to_bytes,write,header_len,from_slice,from_bytes,read}"]),
    ("c08_vlan_bytes", "quick", 300, 10, "all byte strings of length <= 8", ["SingleVlanHeader::{from_slice,to_bytes}"]),
    ("c08_macsec_value", "quick", 300, 20,
     "all field values, 4 payload types x with/without SCI (all 4 layouts 6/8/14/16 bytes); excluded: Unmodified with "
     "short length 1 (inconsistent, rejected by the decoder)",
     ["MacsecHeader::{to_bytes,write,header_len,from_slice,read}", "MacsecHeaderSlice::{from_slice,header_len}"]),
    ("c08_macsec_bytes", "quick", 300, 20, "all byte strings of length <= 18; mask: SL octet top 2 bits (reserved)",
     ["MacsecHeaderSlice::{from_slice,to_header}", "MacsecHeader::{to_bytes,from_slice}"]),
    ("c08_link_wrappers", "quick", 300, 20, "all field values of the wrapped headers",
     ["LinkHeader::{write,header_len}", "LinkExtHeader::header_len"]),
    # ---- ARP (address sizes concrete per harness, see claim)
    ("c08_arp_value_6_4", "quick", 600, 30, "address sizes (6,4); all types, operations, address bytes",
     ["ArpPacket::{new,to_bytes,write,packet_len,from_slice}", "ArpPacketSlice::{from_slice,to_packet}", "NetHeaders::header_len"]),
    ("c08_arp_read_6_4", "quick", 600, 30, "address sizes (6,4)", ["ArpPacket::{write,read}"]),
    ("c08_arp_bytes_6_4", "quick", 600, 32, "address sizes (6,4), 30 byte buffer (2 bytes follow the packet), all other bytes",
     ["ArpPacketSlice::{from_slice,to_packet}", "ArpPacket::{to_bytes,from_slice}"]),
    ("c08_arp_bytes_1_2", "quick", 600, 18, "address sizes (1,2), 16 byte buffer, all other bytes",
     ["ArpPacketSlice::{from_slice,to_packet}", "ArpPacket::{to_bytes,from_slice}"]),
    ("c08_arp_eth_ipv4_value", "quick", 600, 30, "all field values",
     ["ArpEthIpv4Packet::{to_bytes,to_arp_packet}", "ArpPacket::{to_bytes,write,from_slice,try_eth_ipv4}",
      "TryFrom<ArpPacket> for ArpEthIpv4Packet"]),
    ("c08_arp_value_1_2", "thorough", 900, 16, "address sizes (1,2)",
     ["ArpPacket::{new,to_bytes,write,packet_len,from_slice}", "ArpPacketSlice::from_slice"]),
    ("c08_arp_read_1_2", "thorough", 900, 16, "address sizes (1,2)", ["ArpPacket::{write,read}"]),
    ("c08_arp_value_0_0", "thorough", 900, 12, "address sizes (0,0)", ["ArpPacket::{new,to_bytes,write,packet_len,from_slice}"]),
    ("c08_arp_value_8_8", "thorough", 900, 42, "address sizes (8,8)", ["ArpPacket::{new,to_bytes,write,packet_len,from_slice}"]),
    ("c08_arp_read_8_8", "thorough", 900, 42, "address sizes (8,8)", ["ArpPacket::{write,read}"]),
    ("c08_arp_bytes_8_8", "thorough", 900, 44, "address sizes (8,8), 42 byte buffer",
     ["ArpPacketSlice::{from_slice,to_packet}", "ArpPacket::{to_bytes,from_slice}"]),
    ("c08_arp_value_3_0", "thorough", 900, 16, "address sizes (3,0)", ["ArpPacket::{new,to_bytes,write,packet_len,from_slice}"]),
    ("c08_arp_value_0_5", "thorough", 900, 20, "address sizes (0,5)", ["ArpPacket::{new,to_bytes,write,packet_len,from_slice}"]),
    ("c08_arp_value_shrunk", "thorough", 900, 30, "sizes (8,8) replaced by (6,4): stale bytes behind the valid part",
     ["ArpPacket::{new,set_hw_addrs,set_protocol_addrs,to_bytes,write,from_slice}"]),
    ("c08_arp_eth_ipv4_bytes", "thorough", 900, 30, "all byte strings of length <= 30",
     ["ArpPacket::{from_slice,try_eth_ipv4}", "ArpEthIpv4Packet::to_bytes"]),
    # ---- IPv4 / IPv6 base headers
    ("c08_ipv4_value", "quick", 600, 62, "all field values, all 11 option lengths 0..40 with arbitrary content",
     ["Ipv4Header::{to_bytes,write_raw,header_len,from_slice}", "Ipv4Options::try_from", "Ipv4HeaderSlice::{from_slice,to_header}"]),
    ("c08_ipv4_value_read", "quick", 600, 62, "all field values, all 11 option lengths", ["Ipv4Header::{to_bytes,read,read_without_version}"]),
    ("c08_ipv4_value_write", "quick", 600, 62,
     "all field values, all 11 option lengths (case split); bytes 10..12 = computed checksum are excluded",
     ["Ipv4Header::{write,to_bytes,calc_header_checksum}"]),
    ("c08_ipv4_bytes", "quick", 600, 62, "all byte strings of length <= 64; mask: reserved flag (byte 6 bit 7)",
     ["Ipv4Header::{from_slice,to_bytes}", "Ipv4HeaderSlice::{from_slice,to_header}"]),
    ("c08_ipv6_value", "quick", 600, 42, "all field values", ["Ipv6Header::{to_bytes,write,header_len,from_slice,read}"]),
    ("c08_ipv6_bytes", "quick", 600, 42, "all byte strings of length <= 44", ["Ipv6Header::{from_slice,to_bytes}"]),
    ("c08_ipv6_frag_value", "quick", 300, 10, "all field values",
     ["Ipv6FragmentHeader::{to_bytes,write,header_len,from_slice,read}"]),
    ("c08_ipv6_frag_bytes", "quick", 300, 10, "all byte strings of length <= 12; mask: reserved byte 1, reserved bits 2..1 of byte 3",
     ["Ipv6FragmentHeader::{from_slice,to_bytes}"]),
    # ---- transport
    ("c08_udp_value", "quick", 300, 10, "all field values",
     ["UdpHeader::{to_bytes,write,header_len,from_slice,from_bytes,read}", "TransportHeader::{write,header_len}"]),
    ("c08_udp_bytes", "quick", 300, 10, "all byte strings of length <= 12", ["UdpHeader::{from_slice,to_bytes}"]),
    ("c08_tcp_value", "quick", 600, 62, "all field values, options from every slice length 0..=40 (TcpOptions::try_from_slice)",
     ["TcpHeader::{to_bytes,write,header_len,header_len_u16,from_slice}", "TcpOptions::try_from_slice"]),
    ("c08_tcp_value_read", "quick", 600, 62, "all field values, all option lengths",
     ["TcpHeader::{to_bytes,read}", "TransportHeader::{write,header_len}"]),
    ("c08_tcp_bytes", "quick", 600, 62, "all byte strings of length <= 64; mask: 3 reserved bits of byte 12",
     ["TcpHeader::{from_slice,to_bytes}", "TcpHeaderSlice::{from_slice,to_header}"]),
    ("c08_icmp_echo_rt", "quick", 300, 6, "all values / all 4 byte strings", ["IcmpEchoHeader::{to_bytes,from_bytes}"]),
    ("c08_icmpv4_value", "quick", 600, 22,
     "every variant of Icmpv4Type and of its nested enums incl. both timestamp messages; Unknown for every (type,code) "
     "without typed variant",
     ["Icmpv4Header::{to_bytes,header_len,from_slice,read}", "Icmpv4Slice::{from_slice,header,icmp_type}"]),
    ("c08_icmpv4_value_write", "quick", 600, 22, "every variant (as above)",
     ["Icmpv4Header::{to_bytes,write}", "TransportHeader::{write,header_len}"]),
    ("c08_icmpv4_bytes", "quick", 600, 22, "all byte strings of length <= 24; mask: RFC 792 unused words of the typed messages",
     ["Icmpv4Header::{from_slice,to_bytes}", "Icmpv4Slice::{from_slice,header}"]),
    ("c08_icmpv6_value", "quick", 600, 10, "every variant of Icmpv6Type and of its nested enums; Unknown for every untyped (type,code)",
     ["Icmpv6Header::{to_bytes,header_len,from_slice,read}", "Icmpv6Slice::{from_slice,header,icmp_type}", "Icmpv6Type::{type_u8,code_u8}"]),
    ("c08_icmpv6_value_write", "quick", 600, 10, "every variant (as above)",
     ["Icmpv6Header::{to_bytes,write}", "TransportHeader::{write,header_len}"]),
    ("c08_icmpv6_bytes", "quick", 600, 10,
     "all byte strings of length <= 12; mask: unused/reserved words of RFC 4443 / RFC 4861 typed messages",
     ["Icmpv6Header::{from_slice,to_bytes}"]),
    ("c08_icmpv6_ndp_headers_rt", "quick", 300, 6, "all values / all byte strings",
     ["icmpv6::RouterAdvertisementHeader::{to_bytes,from_bytes}", "icmpv6::NeighborAdvertisementHeader::{to_bytes,from_bytes}",
      "icmpv6::NdpOptionHeader::{to_bytes,from_bytes,from_slice}"]),
    ("c08_icmpv6_payload_value", "quick", 300, 34, "all 5 NDP payload kinds, all field values",
     ["icmpv6::Icmpv6Payload::{write,len}", "icmpv6::*Payload::to_bytes", "Icmpv6Type::payload_from_slice"]),
    ("c08_icmpv6_payload_bytes", "quick", 300, 34, "all 5 NDP payload kinds, all byte strings of length <= 36",
     ["Icmpv6Type::payload_from_slice", "icmpv6::Icmpv6Payload::write"]),
    ("c08_prefix_info_value", "quick", 300, 34, "all field values", ["icmpv6::PrefixInformation::{to_bytes,from_bytes,from_slice}"]),
    ("c08_prefix_info_bytes", "quick", 300, 34, "all byte strings of length <= 34; mask: Reserved1 (6 bits), Reserved2 (4 bytes)",
     ["icmpv6::PrefixInformation::{from_slice,to_bytes}"]),
    ("c08_igmp_value", "quick", 300, 14, "all 7 variants, all field values; Unknown for every type number without typed variant",
     ["IgmpHeader::{to_bytes,header_len,from_slice}"]),
    ("c08_igmp_bytes", "quick", 300, 14, "all byte strings of length <= 16; mask: unused/reserved byte 1 of reports and leave",
     ["IgmpHeader::{from_slice,to_bytes}"]),
    ("c08_igmp_record_value", "quick", 300, 10, "all field values", ["igmp::ReportGroupRecordV3Header::{to_bytes,from_slice}"]),
    ("c08_igmp_record_bytes", "quick", 300, 10, "all byte strings of length <= 12", ["igmp::ReportGroupRecordV3Header::{from_slice,to_bytes}"]),
    # ---- authentication header
    ("c08_auth_value", "quick", 600, 26, "ICV 0/4/8 bytes, optionally replaced by a shorter ICV (stale bytes); all field values",
     ["IpAuthHeader::{new,set_raw_icv,write,header_len,from_slice,read}", "IpAuthHeaderSlice::{from_slice,to_header}"]),
    ("c08_auth_bytes", "quick", 600, 26, "all byte strings of length <= 24 (ICV <= 12 bytes), encoder = write; mask: reserved bytes 2,3",
     ["IpAuthHeader::{from_slice,write}"]),
    ("c08_auth_to_bytes_0", "thorough", 2700, 1018, "ICV 0 bytes (after having held 8)", ["IpAuthHeader::{to_bytes,write,header_len}"]),
    ("c08_auth_to_bytes_1", "thorough", 2700, 1018, "ICV 4 bytes (after having held 8)", ["IpAuthHeader::{to_bytes,write,header_len}"]),
    # ---- raw IPv6 extension header
    ("c08_auth_to_bytes_2", "thorough", 2700, 1018, "ICV 8 bytes", ["IpAuthHeader::{to_bytes,write,header_len}"]),
    ("c08_raw_ext_value", "quick", 600, 26, "payload 6/14/22 bytes (length field 0..=2), optionally replaced by a shorter one",
     ["Ipv6RawExtHeader::{new_raw,set_payload,write,header_len,from_slice}", "Ipv6RawExtHeaderSlice::{from_slice,to_header}"]),
    ("c08_raw_ext_value_read", "quick", 600, 26, "payload 6/14/22 bytes", ["Ipv6RawExtHeader::{write,read}"]),
    ("c08_raw_ext_to_bytes_0", "quick", 600, 26, "length field 0 (after having held 22 bytes)",
     ["Ipv6RawExtHeader::{to_bytes,write,header_len,from_slice}"]),
    ("c08_raw_ext_bytes_to_bytes_0", "quick", 600, 28, "10 byte buffer, length byte 0, all other bytes",
     ["Ipv6RawExtHeader::{from_slice,to_bytes}"]),
    ("c08_raw_ext_to_bytes_1", "thorough", 900, 26, "length field 1", ["Ipv6RawExtHeader::{to_bytes,write,header_len,from_slice}"]),
    ("c08_raw_ext_to_bytes_2", "thorough", 900, 26, "length field 2", ["Ipv6RawExtHeader::{to_bytes,write,header_len,from_slice}"]),
    ("c08_raw_ext_bytes", "thorough", 900, 28, "all byte strings of length <= 26 (length field 0..=2), encoder = write",
     ["Ipv6RawExtHeader::{from_slice,write}"]),
    ("c08_raw_ext_bytes_to_bytes_2", "thorough", 900, 28, "26 byte buffer, length byte 2, all other bytes",
     ["Ipv6RawExtHeader::{from_slice,to_bytes}"]),
    # ---- IPv4 extensions
    ("c08_ipv4_exts_none", "quick", 300, 6, "no authentication header, every start number != 51",
     ["Ipv4Extensions::{write,header_len,is_empty,from_slice,read}"]),
    ("c08_ipv4_exts_bytes_auth", "quick", 600, 26, "start number 51, all byte strings of length <= 24",
     ["Ipv4Extensions::{from_slice,header_len}", "Ipv4ExtensionsSlice::{from_slice,to_header}", "IpAuthHeader::from_slice"]),
    ("c08_ipv4_exts_auth_enc", "thorough", 2700, 1018, "authentication header with 4 byte ICV (after having held 8), start number 51",
     ["Ipv4Extensions::{write,header_len,is_empty}", "IpAuthHeader::{to_bytes,write}"]),
    ("c08_ipv4_exts_auth_dec", "thorough", 900, 26, "authentication header with ICV 0/4/8 bytes, start number 51",
     ["Ipv4Extensions::{header_len,from_slice,read}", "IpAuthHeader::{write,read}"]),
    # ---- IPv6 extensions (concrete chain shape per harness, see claim)
    ("c08_ipv6_exts_none", "quick", 300, 9, "empty chain, next protocol UDP", ["Ipv6Extensions::{set_next_headers,write,header_len,from_slice,read}"]),
    ("c08_ipv6_exts_frag_enc", "quick", 300, 9, "chain: fragment -> UDP",
     ["Ipv6Extensions::{set_next_headers,write,header_len}", "Ipv6FragmentHeader::write"]),
    ("c08_ipv6_exts_frag_slice", "quick", 600, 3, "chain: fragment -> UDP", ["Ipv6Extensions::from_slice"]),
    ("c08_ipv6_exts_frag_read", "quick", 600, 3, "chain: fragment -> UDP", ["Ipv6Extensions::read"]),
    ("c08_ipv6_exts_hbh_frag_enc", "thorough", 900, 9, "chain: hop-by-hop(8) -> fragment -> UDP",
     ["Ipv6Extensions::{set_next_headers,write,header_len}", "Ipv6RawExtHeader::{to_bytes,write}"]),
    ("c08_ipv6_exts_hbh_frag_slice", "thorough", 1800, 9, "chain: hop-by-hop(8) -> fragment -> UDP", ["Ipv6Extensions::from_slice"]),
    ("c08_ipv6_exts_other_order_enc", "thorough", 900, 9, "chain: routing(8) -> fragment -> destination options(8) -> UDP",
     ["Ipv6Extensions::{write,header_len}"]),
    ("c08_ipv6_exts_all_raw_enc", "thorough", 1800, 9,
     "chain: hop-by-hop -> destination options -> routing -> fragment -> destination options -> UDP (raw headers 8 bytes)",
     ["Ipv6Extensions::{set_next_headers,write,header_len}", "Ipv6RawExtHeader::{to_bytes,write}"]),
    ("c08_ipv6_exts_auth_enc", "thorough", 2700, 1018, "chain: authentication header (4 byte ICV) -> UDP",
     ["Ipv6Extensions::{set_next_headers,write,header_len}", "IpAuthHeader::{to_bytes,write}"]),
    ("c08_ipv6_exts_auth_slice", "thorough", 1800, 9, "chain: authentication header (4 byte ICV) -> UDP", ["Ipv6Extensions::from_slice"]),
    # ---- IpHeaders
    ("c08_ip_headers_v4_enc", "quick", 600, 30, "IPv4 with 0 and 4 option bytes, no extension, protocol UDP, payload 0..=2",
     ["IpHeaders::{write,header_len}", "Ipv4Header::write", "NetHeaders::{from,header_len}"]),
    ("c08_ip_headers_v4_max_enc", "thorough", 900, 64, "IPv4 with 40 option bytes, no extension, protocol UDP",
     ["IpHeaders::{write,header_len}", "Ipv4Header::write"]),
    ("c08_ip_headers_v4_slice", "thorough", 900, 30, "IPv4 with 4 option bytes, no extension, protocol UDP, payload 0..=2",
     ["IpHeaders::from_slice"]),
]

ID = "C08"
PROP = {
    "max_jobs": 8,  # parallel CBMC jobs (memory profile of these harnesses)
    "claim": "round trip in both directions, decided per type on the real serialisers/decoders. (1) for every well-formed "
             "value inside the bound: to_bytes / write (into a capturing std::io::Write) / write_to_slice produce identical "
             "bytes (Ipv4Header::write: identical except the documented computed checksum in bytes 10..12) of exactly "
             "header_len() bytes, and from_slice / from_bytes / read of these bytes return an equal value with an empty "
             "remainder / an exactly consumed reader. (2) for every byte string inside the bound that the decoder accepts: "
             "re-encoding reproduces the consumed bytes except for the mask bits listed (reserved by the RFC / documented as "
             "not stored), and decoding the re-encoded bytes gives the same value with an empty remainder. Fixed size types "
             "(Ethernet2, LinuxSll, SingleVlan, Macsec all 4 layouts, ArpEthIpv4, Ipv6Header, Ipv6FragmentHeader, UDP, ICMP "
             "echo, ICMPv4/ICMPv6 all variants, IGMP all variants, group record, NDP prefix information / NDP fixed parts, "
             "LinkHeader/LinkExtHeader/TransportHeader wrappers) are complete over all field values and all byte strings up to "
             "the stated length. Variable parts: IPv4 options all 11 lengths, TCP options all lengths 0..=40, AH ICV 0/4/8 "
             "bytes through write/from_slice/read (ICV <= 12 bytes in direction 2) and through to_bytes "
             "[thorough], raw IPv6 extension payload 6/14/22 bytes (to_bytes once per length), ARP with concrete address size "
             "pairs (6,4),(1,2) [quick] + (0,0),(8,8),(3,0),(0,5),(8,8)->(6,4) shrunk [thorough]. Ipv6Extensions: concrete "
             "chain shapes with minimal member sizes and symbolic contents, upper protocol UDP; encode (write == the members' "
             "own serialisers in link order, length == header_len) and decode (decoding those bytes gives the value back) are "
             "decided in separate harnesses over the same value set: empty, fragment [quick]; hop-by-hop+fragment (enc+dec), "
             "routing+fragment+destination options in a non-RFC order (enc), all five raw/fragment members (enc), "
             "authentication header (enc+dec) [thorough]. Ipv4Extensions: none (all), with AH: enc (4 byte ICV) + dec (ICV 0/4/8) "
             "[thorough]. IpHeaders: IPv4 variant "
             "without extension header (enc: 0/4/40 option bytes; dec via from_slice: 4 option bytes).",
    "outside": "larger variable parts (ICV > 12 bytes, raw extension payload > 22 bytes, ARP address sizes other than the listed "
               "pairs - the four ARP field offsets are affine in the two sizes and the pairs used are not collinear). NOT "
               "decided because CBMC did not finish within 20 min / 20 GB on the shared machine (each measured): "
               "IpHeaders with an authentication header; Ipv6Extensions with symbolic presence/links or a symbolic upper protocol, its decode side for chains with "
               "more than two members, and its direction 2; IpHeaders with the IPv6 variant (9 KB enum payload: > 20 GB even "
               "without extension headers), IpHeaders::read, IpHeaders direction 2, NetHeaders::header_len for IPv6. These "
               "compositions only add dispatch over member serialisers that are decided individually. DoubleVlanHeader has "
               "no serialiser in this tree. Symmetric layout errors (same wrong position in encoder and decoder) are "
               "C03/C15's subject, not a round-trip property",
    "assumptions": [
        "well-formedness predicates of values are written from the RFC / IEEE layouts and the documented constructors in "
        "kani/src/c08.rs: bounded newtypes through try_new, (type,code) pairs of ICMP Unknown variants exclude the pairs that "
        "have a typed variant, IGMP Unknown excludes the 5 typed type numbers, MACsec Unmodified excludes short length 1, "
        "LinuxSll protocol type variant is the one documented for the ARPHRD value",
        "mask bits (direction 2) are transcribed from RFC 791, 792, 1191, 2236, 4302, 4443, 4861, 8200, 9293, 9776 and IEEE "
        "802.1AE; each is documented next to the mask in kani/src/c08.rs",
        "test doubles: the capturing writer and the slice reader never fail (overflow / overrun are recorded in flags that the "
        "harness asserts to be false); no std::io::Error is ever constructed",
        "encode/decode decomposition for Ipv6Extensions, Ipv4Extensions with AH and IpHeaders: decode(write(v)) == v is "
        "concluded from write(v) == members' bytes (one harness) and decode(members' bytes) == v (another harness)",
    ],
    "harnesses": [H(n, "c08", tier=t, timeout=to, unwind=u, bounds=b, encodes=e) for (n, t, to, u, b, e) in _C08],
}
