from registry import H

# ----------------------------------------------------------------------------- C04
# Every harness is a pure differential on identical bytes (kani/src/c04.rs):
#   s_* : PacketHeaders::<entry>      vs SlicedPacket::<entry>
#   l_* : LaxPacketHeaders::<entry>   vs LaxSlicedPacket::<entry>
# "skeleton" = the dispatch bytes that are written as constants (version/IHL byte, protocol / next-header
# bytes, ether types, extension length bytes); every other byte AND the slice length (0..=N) are symbolic.
# Dispatch bytes have to be concrete because the struct results are ~10 KB enum unions: with a symbolic
# dispatch value CBMC executes every arm (incl. three IPv6 chain walks) and runs out of memory even for N=32.

_ENTRY = {
    "ip": ("from_ip_slice", "from_ip", "from_ip", "from_ip"),
    "et": ("from_ether_type", "from_ether_type", "from_ether_type", "from_ether_type"),
    "eth": ("from_ethernet_slice", "from_ethernet", "from_ethernet", "from_ethernet"),
}

# (suffix, entry, N, skeleton description, extra real functions entered, tier strict, tier lax)
_SHAPES = [
    # ---- from_ip, IPv4
    ("ip4_udp", "ip", 32, "byte0=0x45 (IPv4, IHL 5), protocol=17 (UDP)",
     ["IpHeaders::from_slice(_lax)", "IpSlice::from_slice", "LaxIpSlice::from_slice", "UdpHeader::from_slice",
      "UdpSlice::from_slice(_lax)", "Ipv4HeaderSlice::to_header", "UdpSlice::to_header"], "quick", "quick"),
    ("ip4_tcp", "ip", 44, "byte0=0x45, protocol=6 (TCP; data offset symbolic, options <= 4 bytes)",
     ["TcpHeader::from_slice", "TcpSlice::from_slice", "TcpSlice::to_header"], "thorough", "thorough"),
    ("ip4_icmp", "ip", 32, "byte0=0x45, protocol=1 (ICMPv4)",
     ["Icmpv4Slice::from_slice", "Icmpv4Slice::header", "Icmpv4Slice::payload"], "thorough", None),
    # ---- from_ether_type
    ("et_arp", "et", 32, "ether type 0x0806 (ARP), all ARP bytes symbolic (address sizes symbolic)",
     ["ArpPacket::from_slice", "ArpPacketSlice::from_slice", "ArpPacketSlice::to_packet"], "thorough", "quick"),
]


def _harnesses():
    out = []
    for (suf, entry, n, skel, extra, tier_s, tier_l) in _SHAPES:
        ph, sp, lph, lsp = _ENTRY[entry]
        if tier_s:
            out.append(H("c04_s_" + suf, "c04", tier=tier_s, timeout=1500, unwind=5,
                     bounds="N=%d symbolic bytes, slice length 0..=%d symbolic; concrete skeleton: %s" % (n, n, skel),
                     encodes=["PacketHeaders::" + ph, "SlicedPacket::" + sp] + extra))
        if tier_l:
            out.append(H("c04_l_" + suf, "c04", tier=tier_l, timeout=1500, unwind=5,
                     bounds="N=%d symbolic bytes, slice length 0..=%d symbolic; concrete skeleton: %s" % (n, n, skel),
                     encodes=["LaxPacketHeaders::" + lph, "LaxSlicedPacket::" + lsp] + extra))
    return out


def _shared():
    # PacketHeaders on MACsec / VLAN stacks against the reference walk that C03 ties SlicedPacket to (verdict, link
    # extensions, remaining payload range and length source, error values): body in c03::glue, owned by C07's registry
    try:
        from reg import c07
        out = []
        for h in c07.HDR:
            if not h["name"].endswith("_lax"):
                h = dict(h)
                # thorough only: the strict struct harnesses peak close to the 20 GB cap (registered with 36 GB)
                out.append(h)
        return out
    except Exception:
        return []


ID = "C04"
PROP = {
    "max_jobs": 3,  # parallel CBMC jobs (memory profile of these harnesses)
    "claim": "for each listed skeleton (concrete dispatch bytes: IP version/IHL byte, protocol / next-header bytes, ether "
             "types, 8 byte IPv6 extension headers) and EVERY value of all other bytes and every slice length 0..=N: "
             "struct decoding and slicing of the same bytes give the same verdict (same error kind, layer and numbers, "
             "with two enumerated IPv4 'fewer than 20 bytes' ordering tolerances), the same link / link_exts[i] / net / "
             "transport headers after to_header() conversion, a payload with the same start address, length and "
             "protocol, and (lax) the same stop_err; the only other accepted difference is the documented IPv6 one, "
             "decided by an independent chain walker over the raw bytes: then struct decoding must stop exactly at the "
             "extension header whose slot is already filled and report it as the payload protocol",
    "outside": "NOT covered (honest gap): every IPv6 input (incl. the permitted extension-header difference: the walker and "
               "the c04_[sl]_ip6_* / c04_exts_layer_* bodies exist in kani/src/c04.rs but CBMC needs > 20 GB for them - "
               "Ipv6Extensions is a 9 KB struct of 2 KB arrays), from_ethernet, VLAN / MACsec stacks in front of IP "
               "(c04_[sl]_eth_*, c04_[sl]_et_vlan_*, c04_[sl]_et_macsec_* bodies exist, 10-12 GB each, not run to "
               "completion on the shared machine), ICMPv6, lax ICMPv4, IPv4 options / AH, dispatch values other than the listed "
               "skeletons (symbolic dispatch bytes do not fit into memory: the struct results are ~10 KB enum unions), "
               "from_linux_sll, inputs longer than the per-harness N, TCP option contents beyond 4 bytes, len_source of "
               "the remaining payload, `incomplete` flags of the lax payload",
    "assumptions": [
        "IPv6 slot rules of the walker are transcribed from the documentation of Ipv6Extensions::from_slice and RFC 8200 "
        "section 4 / RFC 4302 header layouts; it shares no code with etherparse",
        "lax IPv6 slicing results have no to_header(): the extension part is converted with "
        "Ipv6Extensions::from_slice_lax over exactly the bytes the sliced result covers",
    ],
    "harnesses": _harnesses() + _shared(),
}
