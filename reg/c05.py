from registry import H

ID = "C05"

def _h(name, **kw):
    return H(name, "c05", **kw)

def _g(name, **kw):
    return H(name, "c05::glue", **kw)

PER_LAYER = [
    _h("c05_lax_macsec", unwind=4, bounds="every byte string of length 0..=28", encodes=["LaxMacsecSlice::from_slice", "MacsecSlice::from_slice"]),
    _h("c05_lax_udp", unwind=4, bounds="every byte string of length 0..=16", encodes=["UdpSlice::from_slice_lax", "UdpSlice::from_slice"]),
    _h("c05_lax_ipv4", unwind=4, bounds="every byte string of length 0..=44", encodes=["LaxIpv4Slice::from_slice", "Ipv4Slice::from_slice"]),
    _h("c05_lax_ipv6_56", unwind=4, timeout=1500, bounds="every byte string of length 0..=56 (<= 2 extension headers)", encodes=["LaxIpv6Slice::from_slice", "Ipv6Slice::from_slice"]),
    _h("c05_lax_ipv6_64", tier="thorough", unwind=5, timeout=5400, bounds="every byte string of length 0..=64", encodes=["LaxIpv6Slice::from_slice", "Ipv6Slice::from_slice"]),
    _h("c05_ipv6_slice_lax_56", unwind=4, timeout=1500, bounds="every byte string of length 0..=56", encodes=["Ipv6Slice::from_slice_lax", "Ipv6Slice::from_slice"]),
    _h("c05_lax_ipv6_exts_16", unwind=4, timeout=1500, bounds="every first header x every byte string of length 0..=16", encodes=["Ipv6ExtensionsSlice::from_slice_lax", "Ipv6ExtensionsSlice::from_slice"]),
    _h("c05_lax_ipv6_exts_24", tier="thorough", unwind=5, timeout=5400, bounds="every first header x every byte string of length 0..=24", encodes=["Ipv6ExtensionsSlice::from_slice_lax", "Ipv6ExtensionsSlice::from_slice"]),
    _h("c05_lax_ipv4_exts", unwind=4, bounds="every first header x every byte string of length 0..=28", encodes=["Ipv4ExtensionsSlice::from_slice_lax", "Ipv4ExtensionsSlice::from_slice"]),
    _h("c05_lax_ip_dispatch", unwind=4, timeout=1200, bounds="every byte string of length 0..=44 whose IPv6 next header is not an extension header", encodes=["LaxIpSlice::from_slice"]),
    _h("c05_ref_lax_extends_strict_eth", tier="thorough", unwind=6, timeout=3600, bounds="reference decoder only: from an Ethernet II header, 0..=44 bytes", encodes=["(reference) refm::walk strict vs lax"]),
    _h("c05_ref_lax_extends_strict_sll", tier="thorough", unwind=6, timeout=3600, bounds="reference decoder only: from an SLL header, 0..=44 bytes", encodes=["(reference) refm::walk strict vs lax"]),
    _h("c05_ref_lax_extends_strict_ether_type", tier="thorough", unwind=6, timeout=3600, bounds="reference decoder only: from any ether type, 0..=40 bytes", encodes=["(reference) refm::walk strict vs lax"]),
    _h("c05_ref_lax_extends_strict_ip", unwind=6, timeout=1500, bounds="reference decoder only: from an IP header, 0..=48 bytes", encodes=["(reference) refm::walk strict vs lax"]),
]

GLUE = [
    _g("c05_glue_ipv4_icmp", unwind=2, timeout=1500, bounds="LaxSlicedPacket::from_ip: IPv4(IHL 5) -> ICMPv4, 0..=44 bytes", encodes=["LaxSlicedPacket::from_ip (LaxSlicedPacketCursor)"]),
    _g("c05_glue_eth_arp", unwind=2, timeout=1500, bounds="LaxSlicedPacket::from_ethernet: Ethernet II -> ARP, 0..=46 bytes", encodes=["LaxSlicedPacket::from_ethernet"]),
    _g("c05_glue_ipv6_route_udp", unwind=3, timeout=1800, bounds="LaxSlicedPacket::from_ip: IPv6 -> routing header -> UDP, 0..=60 bytes", encodes=["LaxSlicedPacket::from_ip"]),
    _g("c05_glue_eth_ipv4_tcp", unwind=2, timeout=2400, seed_group="glue-heavy", bounds="LaxSlicedPacket::from_ethernet: Ethernet II -> IPv4 (symbolic IHL) -> TCP, 0..=62 bytes", encodes=["LaxSlicedPacket::from_ethernet"]),
    _g("c05_glue_macsec_vlan_ipv4_udp", unwind=4, timeout=3600, seed_group="glue-heavy", bounds="LaxSlicedPacket::from_ether_type(MACSEC): MACsec -> VLAN -> IPv4 -> UDP, 0..=42 bytes", encodes=["LaxSlicedPacket::from_ether_type"]),
    _g("c05_glue_any_ether_type_44", tier="thorough", unwind=5, timeout=7200, bounds="LaxSlicedPacket::from_ether_type, symbolic ether type, every byte string of length 0..=44", encodes=["LaxSlicedPacket::from_ether_type"]),
    _g("c05_glue_any_ip_48", tier="thorough", unwind=5, timeout=7200, bounds="LaxSlicedPacket::from_ip, every byte string of length 0..=48", encodes=["LaxSlicedPacket::from_ip"]),
    _g("c05_glue_any_ethernet_48", tier="thorough", unwind=5, timeout=7200, bounds="LaxSlicedPacket::from_ethernet, every byte string of length 0..=48", encodes=["LaxSlicedPacket::from_ethernet"]),
]

def _shared():
    # LaxPacketHeaders link-extension part (payload range, honest length source, stop errors): body in c03::glue,
    # owned by C07's registry (stubbed network decoders, see reg/c07.py)
    try:
        from reg import c07
        return [h for h in c07.HDR if h["name"].endswith("_lax")]
    except Exception:
        return []


PROP = {
    "max_jobs": 8,  # parallel CBMC jobs (memory profile of these harnesses)
    "claim": "each lax entry point returns the prefix, payload range, incomplete flag, length source and stop error that "
             "the reference decoder in lax mode computes, fails only when the first header is undecodable, and equals "
             "its strict sibling whenever that accepts; the strict/lax relation for whole packets follows from "
             "strict == walk(strict) (C03 glue), lax == walk(lax) (c05_glue_*) and the reference lemma "
             "c05_ref_lax_extends_strict. LaxPacketHeaders is tied to LaxSlicedPacket by the C04 harnesses.",
    "outside": "inputs longer than the per-harness bound; LaxPacketHeaders::from_linux_sll",
    "assumptions": ["the reference decoder kani/src/refm.rs is correct (validated natively by kani/src/bin/selfcheck.rs)"],
    "harnesses": PER_LAYER + GLUE + _shared(),
}
