from registry import H

# ----------------------------------------------------------------------------- C17
ID = "C17"
PROP = {
    "claim": "for every byte string inside the per-harness length bound (ICMPv4 <= 28 B, ICMPv6 message <= 48 B, "
             "NDP payload / single NDP option <= 40 B, NDP option area <= 32 B quick and <= 72 B thorough, IGMP <= 24 B, "
             "ARP <= 36 B, i.e. hardware + protocol address size <= 14) and ALL 65536 (type, code) pairs / all 256 "
             "type, length-unit and address-size bytes: the typed views return exactly the kind, field values, "
             "fixed/variable split (compared as offset+length relative to the input, never by content) and option "
             "sequence of the reference tables written from RFC 792/1122/1812/1191, 4443/4861/7112/8754/8883, "
             "2236/3376/9776 and 826; every (type, code) outside the tables falls back to Unknown/Raw; inputs are "
             "rejected exactly when too short (ICMPv4 timestamp: not exactly 20 B; IGMP query: 9..11 B), when NDP "
             "length units are zero, run past the area or contradict a fixed-size option (prefix information 4, "
             "MTU 1); error values carry the real required/available sizes; the NDP options handed out tile the "
             "option area from offset 0 without gap or overlap up to the first rejected option and the iterator "
             "stays exhausted after the end and after an error; the Ethernet/IPv4 view of ARP exists exactly for "
             "hrd=1, pro=0x0800, hln=6, pln=4 and carries sha/spa/tha/tpa of RFC 826. Decoders read from an "
             "exact-size heap object (any read outside the slice fails) except where stated in the harness bounds",
    "outside": "inputs longer than the bounds above (ARP address sizes with hln + pln > 14 only on the rejection "
               "path; address *contents* of the owned ArpPacket only for the concrete size pairs (6,4) and, thorough "
               "tier, (4,6) - a copy of symbolic length followed by a read is beyond the solver; all other "
               "sizes: verdict, sizes and scalar fields only); placement: the "
               "multi-step NDP iterator harnesses and c17_ndp_iter_first put the area end-aligned into its own "
               "object (reads past the end fail, reads in front of it would not - icmpv6/ contains no unsafe code, "
               "the Tight twin c17_ndp_iter_first_tight runs in the thorough tier); which of several simultaneous "
               "faults an NDP option / try_eth_ipv4 error names (any TRUE fault with exact field values is accepted, "
               "no order is prescribed by the RFCs or the docs); len_source of the ARP address-length error (C07 "
               "finding, only required_len/len/layer/offset are asserted here); Icmpv6Slice length > u32::MAX; "
               "*PayloadSlice::as_lax_ip_slice (= LaxIpSlice::from_slice, C05); ArpPacket::read and io errors other "
               "than UnexpectedEof of an in-memory reader (C06/C16); checksums (C09); Debug/Display output; ICMPv6 "
               "destination-unreachable codes 7/8 and other IANA-assigned values the crate documents as unsupported "
               "are expected in the Unknown/Raw form",
    "assumptions": ["reference dispatch tables and layouts in kani/src/c17.rs are transcribed from the RFCs with "
                    "literal numbers and share no constant or helper with etherparse; the set of typed (type, code) "
                    "pairs is the one the crate documents (ICMPv6 unreachable 0-6, parameter problem 0-10, ICMPv4 "
                    "unreachable 0-15, redirect 0-3, time exceeded 0-1, parameter problem 0-2)",
                    "accessor results of an option / payload slice depend only on the byte range it holds (used to "
                    "carry the field checks of the stand-alone option harnesses over to options 2.. of the "
                    "multi-step iterator harnesses, which check kind and position only)"],
    "harnesses": [
        H("c17_icmpv4_slice", "c17", unwind=40, timeout=600,
          bounds="len <= 28 symbolic, all 2^16 (type, code), all header bytes",
          encodes=["Icmpv4Slice::from_slice", "Icmpv4Slice::{slice,type_u8,code_u8,checksum,bytes5to8,header_len,"
                   "payload,icmp_type,header}", "Icmpv4Type::{header_len,fixed_payload_size}"]),
        H("c17_icmpv4_header", "c17", unwind=40, timeout=600,
          bounds="len <= 28 symbolic, all 2^16 (type, code)",
          encodes=["Icmpv4Header::from_slice", "Icmpv4Header::{header_len,fixed_payload_size}"]),
        H("c17_icmpv6_slice", "c17", unwind=40, timeout=600,
          bounds="len <= 48 symbolic, all 2^16 (type, code), all header bytes",
          encodes=["Icmpv6Slice::from_slice", "Icmpv6Slice::{slice,type_u8,code_u8,checksum,bytes5to8,header_len,"
                   "payload,icmp_type,header}", "Icmpv6Header::from_slice",
                   "Icmpv6Type::{type_u8,code_u8,header_len,fixed_payload_size}"]),
        H("c17_icmpv6_payload_dispatch", "c17", unwind=40, timeout=900,
          bounds="8 <= len <= 48 symbolic (payload <= 40 B), all 2^16 (type, code)",
          encodes=["Icmpv6Slice::payload_slice", "Icmpv6PayloadSlice::from_type_u8", "Icmpv6PayloadSlice::from_slice",
                   "Icmpv6PayloadSlice::{slice,to_payload}", "Icmpv6Type::{payload_slice,payload_from_slice}",
                   "all eleven *PayloadSlice::{from_slice,slice,invoking_packet|data|options}", "Icmpv6Payload::{len,is_empty}"]),
        H("c17_icmp_header_read", "c17", unwind=40, timeout=600,
          bounds="in-memory reader with <= 28 B (ICMPv4) / <= 16 B (ICMPv6) symbolic, all 2^16 (type, code)",
          encodes=["Icmpv4Header::read", "Icmpv6Header::read"]),
        H("c17_ndp_router_payloads", "c17", unwind=40, timeout=600, bounds="len <= 40 symbolic",
          encodes=["RouterSolicitationPayloadSlice::*", "RouterAdvertisementPayloadSlice::{from_slice,slice,reachable_time,"
                   "retrans_timer,options,options_iterator,to_payload}"]),
        H("c17_ndp_neighbor_payloads", "c17", unwind=40, timeout=600, bounds="len <= 40 symbolic",
          encodes=["NeighborSolicitationPayloadSlice::{from_slice,slice,target_address,options,options_iterator,to_payload}",
                   "NeighborAdvertisementPayloadSlice::{from_slice,slice,target_address,options,options_iterator,to_payload}"]),
        H("c17_ndp_redirect_payload", "c17", unwind=40, timeout=600, bounds="len <= 40 symbolic",
          encodes=["RedirectPayloadSlice::{from_slice,slice,target_address,destination_address,options,options_iterator,"
                   "to_payload}"]),
        H("c17_ndp_iter_first", "c17", unwind=42, timeout=900,
          bounds="option area <= 40 B symbolic (end-aligned in its object), first next() + the call after the end: "
                 "all type / length-unit bytes, all field values",
          encodes=["NdpOptionsIterator::{from_slice,rest,next}", "NdpOptionHeader::from_slice",
                   "{SourceLinkLayerAddress,TargetLinkLayerAddress,PrefixInformation,RedirectedHeader,Mtu,Unknown}"
                   "OptionSlice::from_slice + every accessor", "NdpOptionSlice::{as_bytes,option_type}",
                   "PrefixInformation::from_bytes", "PrefixInformationOptionSlice::prefix_information"]),
        H("c17_ndp_iter_first_tight", "c17", tier="thorough", unwind=42, timeout=1800,
          bounds="as c17_ndp_iter_first, option area in an exact-size heap object",
          encodes=["NdpOptionsIterator::{from_slice,rest,next}", "the six NDP option slices + every accessor"]),
        H("c17_ndp_iter_32", "c17", unwind=34, timeout=900,
          bounds="option area <= 32 B symbolic (end-aligned in its object; <= 4 options + terminating call + one "
                 "call behind the end), all type / length-unit bytes",
          encodes=["NdpOptionsIterator::{from_slice,rest,next}", "the six NDP option slices ::from_slice",
                   "NdpOptionSlice::{as_bytes,option_type}"]),
        H("c17_ndp_iter_48", "c17", tier="thorough", unwind=50, timeout=2400,
          bounds="option area <= 48 B symbolic (end-aligned; <= 6 options + terminating call + one call behind the end)",
          encodes=["NdpOptionsIterator::{from_slice,rest,next}", "the six NDP option slices ::from_slice",
                   "NdpOptionSlice::{as_bytes,option_type}"]),
        H("c17_ndp_iter_72", "c17", tier="thorough", unwind=74, timeout=2700,
          bounds="option area <= 72 B symbolic (end-aligned; <= 9 options + terminating call + one call behind the end)",
          encodes=["NdpOptionsIterator::{from_slice,rest,next}", "the six NDP option slices ::from_slice",
                   "NdpOptionSlice::{as_bytes,option_type}"]),
        H("c17_ndp_lla_option_slices", "c17", unwind=40, timeout=600,
          bounds="len <= 40 symbolic, all type / length-unit bytes",
          encodes=["NdpOptionHeader::{from_slice,from_bytes,to_bytes,byte_len}",
                   "SourceLinkLayerAddressOptionSlice::*", "TargetLinkLayerAddressOptionSlice::*"]),
        H("c17_ndp_redirected_unknown_option_slices", "c17", unwind=40, timeout=600,
          bounds="len <= 40 symbolic, all type / length-unit bytes",
          encodes=["RedirectedHeaderOptionSlice::*", "UnknownNdpOptionSlice::*"]),
        H("c17_ndp_mtu_option_slice", "c17", unwind=40, timeout=600,
          bounds="len <= 40 symbolic, all type / length-unit bytes", encodes=["MtuOptionSlice::*"]),
        H("c17_ndp_prefix_information", "c17", unwind=40, timeout=600,
          bounds="len <= 40 symbolic, all type / length-unit bytes",
          encodes=["PrefixInformationOptionSlice::*", "PrefixInformation::{from_slice,from_bytes,to_bytes}"]),
        H("c17_igmp_header", "c17", unwind=40, timeout=600, bounds="len <= 24 symbolic, all 256 type bytes",
          encodes=["IgmpHeader::from_slice", "IgmpHeader::header_len",
                   "MembershipQueryWithSourcesHeader::{flags,s_flag,qrv}"]),
        H("c17_igmp_group_record", "c17", unwind=40, timeout=600, bounds="len <= 24 symbolic",
          encodes=["ReportGroupRecordV3Header::from_slice", "ReportGroupRecordV3Header::to_bytes"]),
        H("c17_igmp_max_resp_code", "c17", unwind=40, timeout=600, bounds="all 256 codes",
          encodes=["igmp::MaxResponseCode::as_10th_secs"]),
        H("c17_arp_slice", "c17", unwind=40, timeout=600,
          bounds="len <= 36 symbolic, all hln / pln bytes (accepted: hln + pln <= 14)",
          encodes=["ArpPacketSlice::from_slice", "ArpPacketSlice::{slice,hw_addr_type,proto_addr_type,hw_addr_size,"
                   "proto_addr_size,operation,sender_hw_addr,sender_protocol_addr,target_hw_addr,target_protocol_addr}"]),
        H("c17_arp_eth_ipv4_classify", "c17", unwind=40, timeout=900,
          bounds="complete ARP packets, len <= 36 symbolic, hln + pln <= 14 symbolic, all hrd / pro / op values",
          encodes=["ArpPacketSlice::to_packet", "ArpPacket::new_unchecked", "ArpPacket::{hw_addr_size,protocol_addr_size,"
                   "packet_len,*_addr().len()}", "ArpPacket::try_eth_ipv4"]),
        H("c17_arp_eth_ipv4_fields", "c17", unwind=40, timeout=900,
          bounds="hln = 6, pln = 4 concrete, every other byte symbolic, 28..32 B, plain array (no exact-size object)",
          encodes=["ArpPacketSlice::to_packet", "ArpPacket::{sender_hw_addr,sender_protocol_addr,target_hw_addr,"
                   "target_protocol_addr}", "ArpPacket::try_eth_ipv4", "TryFrom<ArpPacket> for ArpEthIpv4Packet",
                   "ArpEthIpv4Packet::{to_bytes,sender_ipv4_addr,target_ipv4_addr}"]),
        H("c17_arp_owned_4_6", "c17", tier="thorough", unwind=40, timeout=900,
          bounds="hln = 4, pln = 6 concrete (the Ethernet/IPv4 sizes swapped), every other byte symbolic, 28..32 B, plain array",
          encodes=["ArpPacketSlice::to_packet", "ArpPacket address accessors", "ArpPacket::try_eth_ipv4"]),
    ],
}
